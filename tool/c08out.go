package main

import (
	"go/constant"
	"go/token"
	"go/types"

	"golang.org/x/tools/go/ssa"
)

// callbackOutputsFiltered: the outputs handed to a module's response callback are what
// the threshold test counts. The producer of that list may collect a response's
// output only under the test that this very output is non-empty: an error response
// (empty output) that is collected counts towards the threshold and the callback
// fires "with outputs" although fewer valid outputs than the threshold arrived.
// Decided inside the producer: every append of a string element to the returned
// list is dominated by a non-emptiness test of the same value (same variable or the
// same field of the same record). A test of that value in a form not listed here, or
// a predicate call on the record, leaves the element undecided (no report).
func (cx *Ctx) callbackOutputsFiltered(r *Report, sites []ssa.CallInstruction) {
	seenP := map[*ssa.Function]bool{}
	var producers []*ssa.Function
	var trace func(v ssa.Value, depth int)
	trace = func(v ssa.Value, depth int) {
		if depth > 4 {
			return
		}
		switch x := v.(type) {
		case *ssa.Call:
			if f := x.Common().StaticCallee(); f != nil && f.Blocks != nil && !seenP[f] {
				seenP[f] = true
				producers = append(producers, f)
			}
		case *ssa.Phi:
			for _, e := range x.Edges {
				trace(e, depth+1)
			}
		case *ssa.Extract:
			trace(x.Tuple, depth+1)
		}
	}
	for _, s := range sites {
		for _, a := range s.Common().Args {
			if sl, ok := a.Type().Underlying().(*types.Slice); ok {
				if b, ok := sl.Elem().Underlying().(*types.Basic); ok && b.Kind() == types.String {
					trace(a, 0)
				}
			}
		}
	}
	for _, p := range producers {
		fns := append([]*ssa.Function{p}, p.AnonFuncs...)
		n, bad := 0, 0
		for _, f := range fns {
			for _, b := range f.Blocks {
				for _, ins := range b.Instrs {
					call, ok := ins.(*ssa.Call)
					if !ok {
						continue
					}
					bi, ok := call.Call.Value.(*ssa.Builtin)
					if !ok || bi.Name() != "append" || len(call.Call.Args) != 2 {
						continue
					}
					for _, v := range appendedElems(call.Call.Args[1]) {
						if bt, ok := v.Type().Underlying().(*types.Basic); !ok || bt.Kind() != types.String {
							continue
						}
						n++
						nonEmpty, mentioned := false, false
						for _, df := range dominatingFacts(b) {
							ne, m := nonEmptyFact(df, v)
							nonEmpty = nonEmpty || ne
							mentioned = mentioned || m
						}
						if !nonEmpty && !mentioned {
							bad++
							r.violate("callback-outputs-filtered", shortFn(p), cx.P.Pos(call.Pos()), "an element is collected into the outputs handed to the response callback without the test that this very output is non-empty: empty outputs of error responses count towards the response threshold")
						}
					}
				}
			}
		}
		if n > 0 && bad == 0 {
			r.ok("callback-outputs-filtered", shortFn(p), cx.P.Pos(p.Pos()), "every output collected for the response callback is appended under the non-emptiness test of that same output")
		}
	}
}

// appendedElems: the element values of append(s, e1, …, en) (the variadic slice is
// a fresh array filled by stores).
func appendedElems(v ssa.Value) []ssa.Value {
	sl, ok := v.(*ssa.Slice)
	if !ok {
		return nil
	}
	al, ok := sl.X.(*ssa.Alloc)
	if !ok {
		return nil
	}
	var out []ssa.Value
	for _, ref := range *al.Referrers() {
		ia, ok := ref.(*ssa.IndexAddr)
		if !ok {
			continue
		}
		for _, r2 := range *ia.Referrers() {
			if st, ok := r2.(*ssa.Store); ok && st.Addr == ia {
				out = append(out, st.Val)
			}
		}
	}
	return out
}

func sameAccessPath(a, b ssa.Value) bool {
	if a == b {
		return true
	}
	ua, ok1 := a.(*ssa.UnOp)
	ub, ok2 := b.(*ssa.UnOp)
	if ok1 && ok2 && ua.Op == token.MUL && ub.Op == token.MUL {
		fa, ok1 := ua.X.(*ssa.FieldAddr)
		fb, ok2 := ub.X.(*ssa.FieldAddr)
		if ok1 && ok2 {
			return fa.Field == fb.Field && (fa.X == fb.X || sameAccessPath(fa.X, fb.X))
		}
		return ua.X == ub.X
	}
	fa, ok1 := a.(*ssa.Field)
	fb, ok2 := b.(*ssa.Field)
	if ok1 && ok2 {
		return fa.Field == fb.Field && sameAccessPath(fa.X, fb.X)
	}
	return false
}

func baseOfPath(v ssa.Value) ssa.Value {
	for {
		switch x := v.(type) {
		case *ssa.UnOp:
			v = x.X
		case *ssa.FieldAddr:
			v = x.X
		case *ssa.Field:
			v = x.X
		default:
			return v
		}
	}
}

// nonEmptyFact: does the decided condition say that v is non-empty (first result);
// does it talk about v at all (second result).
func nonEmptyFact(df Fact, v ssa.Value) (bool, bool) {
	lenArg := func(x ssa.Value) ssa.Value {
		if c, ok := x.(*ssa.Call); ok {
			if bi, ok := c.Call.Value.(*ssa.Builtin); ok && bi.Name() == "len" && len(c.Call.Args) == 1 {
				return c.Call.Args[0]
			}
		}
		return nil
	}
	intConst := func(x ssa.Value) (int64, bool) {
		if c, ok := x.(*ssa.Const); ok && c.Value != nil && c.Value.Kind() == constant.Int {
			return c.Int64(), true
		}
		return 0, false
	}
	switch c := df.Cond.(type) {
	case *ssa.BinOp:
		x, y, op := c.X, c.Y, c.Op
		if _, isC := x.(*ssa.Const); isC {
			// constant on the left: mirror
			x, y = y, x
			switch op {
			case token.LSS:
				op = token.GTR
			case token.GTR:
				op = token.LSS
			case token.LEQ:
				op = token.GEQ
			case token.GEQ:
				op = token.LEQ
			}
		}
		if l := lenArg(x); l != nil && sameAccessPath(l, v) {
			k, ok := intConst(y)
			if !ok {
				return false, true
			}
			switch {
			case op == token.GTR && k >= 0, op == token.NEQ && k == 0, op == token.GEQ && k >= 1:
				return df.Holds, true
			case op == token.EQL && k == 0, op == token.LSS && k == 1, op == token.LEQ && k == 0:
				return !df.Holds, true
			}
			return false, true
		}
		if sameAccessPath(x, v) {
			if k, ok := y.(*ssa.Const); ok && k.Value != nil && k.Value.Kind() == constant.String && constant.StringVal(k.Value) == "" {
				switch op {
				case token.NEQ:
					return df.Holds, true
				case token.EQL:
					return !df.Holds, true
				}
			}
			return false, true
		}
	case *ssa.Call:
		base := baseOfPath(v)
		for _, a := range c.Call.Args {
			if a == v || a == base || baseOfPath(a) == base || sameAccessPath(a, v) {
				return false, true
			}
		}
	}
	return false, false
}
