package main

// Boundary of "not enough" rejections.
//
// A rejection with ErrInsufficientFunds says "you have less than you ask for". Having exactly
// the amount asked for is enough: the test that leads to such a rejection must be strict
// (have < want), in whichever spelling (LT, ¬GTE, Cmp < 0, through a predicate helper). A
// non-strict test (have ≤ want) turns the last unit of a budget, a stake or a balance into
// something that can never be withdrawn - the operation that uses it up exactly fails.
//
// The same shape for limits: a supply equal to its limit is within the limit; an import or a
// handler may reject only amount > limit.

import (
	"fmt"
	"go/token"
	"strings"

	"golang.org/x/tools/go/ssa"
)

// assertedRelations: the order relations between two operands that a fact asserts, as
// "<", "<=", ">", ">=" with the operands; only method / operator comparisons.
type relFact struct {
	a, b string
	rel  string
}

func relationOf(ft FactT) (relFact, bool) {
	t := ft.Text
	if strings.Contains(t, " : ") {
		return relFact{}, false
	}
	neg := map[string]string{"<": ">=", "<=": ">", ">": "<=", ">=": "<"}
	// (a < b)
	if strings.HasPrefix(t, "(") && strings.HasSuffix(t, ")") {
		parts := splitTop(t[1:len(t)-1], " ")
		if len(parts) == 3 {
			if _, ok := neg[parts[1]]; ok && !isNumberLiteral(parts[0]) && !isNumberLiteral(parts[2]) {
				rel := parts[1]
				if !ft.Holds {
					rel = neg[rel]
				}
				return relFact{parts[0], parts[2], rel}, true
			}
		}
		return relFact{}, false
	}
	// T.LT(a, b) and friends
	i := strings.Index(t, "(")
	if i < 0 || !strings.HasSuffix(t, ")") {
		return relFact{}, false
	}
	head := t[:i]
	j := strings.LastIndex(head, ".")
	m := head[j+1:]
	rel := map[string]string{"LT": "<", "IsLT": "<", "LTE": "<=", "IsLTE": "<=", "GT": ">", "IsGT": ">", "GTE": ">=", "IsGTE": ">=", "IsAllGTE": ">=", "IsAllGT": ">", "IsAllLT": "<", "IsAllLTE": "<="}[m]
	if rel == "" {
		return relFact{}, false
	}
	args := splitTop(t[i+1:len(t)-1], ", ")
	if len(args) != 2 {
		return relFact{}, false
	}
	if !ft.Holds {
		rel = neg[rel]
	}
	if isNumberLiteral(args[0]) || isNumberLiteral(args[1]) {
		return relFact{}, false
	}
	return relFact{args[0], args[1], rel}, true
}

func isNumberLiteral(s string) bool {
	if s == "" {
		return false
	}
	for _, c := range s {
		if (c < '0' || c > '9') && c != '-' {
			return false
		}
	}
	return true
}

// strictRejectRule: every site selected by isSite on the chains of the entries is reached
// under a strict comparison (the facts of the nearest deciding test).
func (cx *Ctx) strictRejectRule(r *Report, rule, what string, entries []Entry, isSite func(w *Walker, fr *Frame, ins ssa.Instruction) bool, relevant func(a, b string) bool) int {
	n := 0
	seen := map[token.Pos]bool{}
	for i := range entries {
		e := &entries[i]
		w := newWalker(cx)
		w.Walk(e.Fn, func(fr *Frame) {
			if fr.Fn.Blocks == nil || !isIrismodFunc(fr.Fn) {
				return
			}
			for _, b := range fr.Fn.Blocks {
				if w.blockInfeasible(fr, b) {
					continue
				}
				last := b.Instrs[len(b.Instrs)-1]
				if !isSite(w, fr, last) || seen[last.Pos()] {
					continue
				}
				// the nearest deciding test (in this function, else in the callers) that asserts
				// an order relation
				strict, loose := "", ""
				found := false
				blk := b
				for f := fr; f != nil && !found; f = f.Parent {
					for _, df := range dominatingFacts(blk) {
						fs := []FactT{{Text: w.ts.Of(df.Cond, f).LooseString(), Holds: df.Holds}}
						fs = append(fs, w.boolValueFacts(f, df.Cond, df.Holds, 0)...)
						// the outcome of a helper (ok / err): what holds on its matching returns
						for _, cf := range callFacts(blk) {
							if cf.Fact.Cond == df.Cond && cf.Fact.Holds == df.Holds {
								fs = append(fs, w.impliedFacts(f, cf, 0)...)
							}
						}
						for _, ft := range withEquivalents(fs) {
							rf, ok := relationOf(ft)
							if !ok || (relevant != nil && !relevant(rf.a, rf.b)) {
								continue
							}
							found = true
							s := rf.a + " " + rf.rel + " " + rf.b
							if rf.rel == "<" || rf.rel == ">" {
								strict = s
							} else {
								loose = s
							}
						}
						break // only the test that directly leads here decides
					}
					break
				}
				if !found {
					continue
				}
				seen[last.Pos()] = true
				n++
				key := moduleOf(funcPkgPath(fr.Fn)) + "|" + shortFn(fr.Fn) + "|" + anchorOfPos(cx, last)
				r.check(strict != "" && loose == "", rule, key, cx.P.Pos(last.Pos()), what+" only under the strict test "+trunc(strict, 200), what+" under the non-strict test "+trunc(loose, 300)+": the case of equality - exactly enough, exactly at the limit - is refused although it is admissible")
			}
		})
	}
	return n
}

func anchorOfPos(cx *Ctx, ins ssa.Instruction) string {
	// stable across edits that move lines: the index of the site among the function's exits
	f := ins.Parent()
	k := 0
	for _, b := range f.Blocks {
		l := b.Instrs[len(b.Instrs)-1]
		if l == ins {
			return fmt.Sprintf("exit#%d", k)
		}
		switch l.(type) {
		case *ssa.Return, *ssa.Panic:
			k++
		}
	}
	return "exit"
}

// insufficientFundsSite: a failure return whose error is built on ErrInsufficientFunds.
func insufficientFundsSite(w *Walker, fr *Frame, ins ssa.Instruction) bool {
	ret, ok := ins.(*ssa.Return)
	if !ok || !isFailureReturn(ret) {
		return false
	}
	t := w.ts.Of(ret.Results[len(ret.Results)-1], fr)
	return findSub(t, func(x *Term) bool {
		return strings.HasSuffix(x.Name, "ErrInsufficientFunds") || strings.Contains(x.Name, ".ErrInsufficientFunds")
	}) != nil
}

// insufficientStrict: the rule for the message and block handlers of one module.
func (cx *Ctx) insufficientStrict(r *Report, mod string) {
	var entries []Entry
	for _, role := range []string{"msg", "abci"} {
		entries = append(entries, cx.entriesOfModule(mod, role)...)
	}
	n := cx.strictRejectRule(r, "insufficient-funds-strict", "the rejection with ErrInsufficientFunds is reached", entries, insufficientFundsSite, nil)
	r.ok("insufficient-funds-strict", "scan", "", fmt.Sprintf("%d rejections with ErrInsufficientFunds on the chains of module %s, each under a strict have < want test", n, mod))
}
