package main

// State footprint of the entry points (closed world for writers).
//
// For every message handler, block handler, service callback, hook and ante handler the
// set of   (entry, store.set|store.delete, key prefix)   and
//          (entry, bank operation, module accounts involved)
// reachable from it was listed on the pinned tree, reviewed against the properties'
// state tables and frozen in footprint.txt. A NEW element - an entry that starts to
// write or delete under a prefix it did not touch, or to move / mint / burn coins it did
// not - is the "second writer" class of defect: each of the existing rules looks at the
// writers it knows, and a writer added next to them leaves every one of those rules
// satisfied while the books it bypasses go out of balance.
//
// Deliberately one-sided and conservative: elements that disappear are the business of
// the pairing rules; a prefix that the frozen table has never seen (a new index or
// counter with a new prefix byte) is not judged here (C12 G1 does that); functions that
// no entry reaches add nothing.

import (
	_ "embed"
	"fmt"
	"sort"
	"strings"
)

//go:embed footprint.txt
var footprintTxt string

func (cx *Ctx) footprintOf(mods []string) []string {
	set := map[string]bool{}
	for _, m := range mods {
		entries := cx.entriesOfModule(m, "msg", "abci", "callback", "hook", "ante")
		cx.forEachEvent(entries, nil, func(e *Entry, w *Walker, ev *Event) {
			if ev.Note == "double-prefix" {
				set["!double-prefix|"+entryKey(e)+"|"+ev.Kind+"|"+strings.Join(ev.Prefix, ",")+"|"+cx.P.Pos(ev.Site.Pos())] = true
			}
			switch {
			case ev.Kind == "store.set" || ev.Kind == "store.delete":
				for _, px := range ev.Prefix {
					set[entryKey(e)+"|"+ev.Kind+"|"+px] = true
				}
			case strings.HasPrefix(ev.Kind, "nft.") && nftMutators[ev.Kind]:
				set[entryKey(e)+"|"+ev.Kind+"|sdk-nft-keeper"] = true
			case strings.HasPrefix(ev.Kind, "bank.") && isMutatingKind(ev.Kind):
				var accts []string
				for _, a := range ev.Args {
					s := a.LooseString()
					if strings.HasPrefix(s, `"`) || strings.HasPrefix(s, "keeper.") || strings.Contains(s, "ModuleName") {
						accts = append(accts, s)
					}
				}
				set[entryKey(e)+"|"+ev.Kind+"|"+strings.Join(accts, ",")] = true
			}
		})
	}
	var out []string
	for k := range set {
		out = append(out, k)
	}
	sort.Strings(out)
	return out
}

func init() {
	dumps["footprint"] = func(cx *Ctx) {
		for _, l := range cx.footprintOf([]string{"coinswap", "farm", "htlc", "mt", "nft", "oracle", "random", "record", "service", "token"}) {
			fmt.Println(l)
		}
	}
}

// footprintRule: no entry of the given modules has a footprint element that the frozen
// table lacks (for prefixes / accounts the table knows).
func (cx *Ctx) footprintRule(r *Report, mods []string, rule string) {
	frozen := map[string]bool{}
	known := map[string]bool{} // prefixes and account sets the table has seen
	entriesKnown := map[string]bool{}
	for _, l := range strings.Split(footprintTxt, "\n") {
		l = strings.TrimSpace(l)
		if l == "" || strings.HasPrefix(l, "#") {
			continue
		}
		frozen[l] = true
		p := strings.SplitN(l, "|", 3)
		if len(p) == 3 {
			known[p[1]+"|"+p[2]] = true
			known[p[2]] = true
			entriesKnown[p[0]] = true
		}
	}
	cur := cx.footprintOf(mods)
	if len(cur) == 0 {
		r.toolErr("footprint of modules %v is empty", mods)
		return
	}
	n := 0
	for _, el := range cur {
		if strings.HasPrefix(el, "!double-prefix|") {
			p := strings.Split(el, "|")
			r.violate("key-prefixed-once", strings.Join(p[1:4], "|"), p[len(p)-1], "entry "+p[1]+": a "+p[2]+" on a prefix store is given a key that already starts with the store's own prefix ("+p[3]+"): the store prepends the prefix again, so the access goes to a key range that no writer of the table uses - a scan finds nothing, a read misses, a write is never found again")
			continue
		}
		if frozen[el] {
			n++
			continue
		}
		p := strings.SplitN(el, "|", 3)
		if len(p) != 3 {
			continue
		}
		// a new entry point (a new rpc) or a prefix / account combination never seen: not judged here
		if !entriesKnown[p[0]] {
			continue
		}
		if strings.HasPrefix(p[1], "store.") && !known[p[2]] {
			continue
		}
		what := p[1] + " under " + p[2]
		if strings.HasPrefix(p[1], "bank.") || strings.HasPrefix(p[1], "nft.") {
			what = p[1] + " involving " + p[2]
		}
		r.violate(rule, el, "", "entry "+p[0]+" now performs "+what+", which it did not on the reviewed tree: a writer added next to the existing ones bypasses the pairing, guard and double-entry obligations that are attached to the writers known so far (second-writer class); if the new effect is intended, the footprint table must be reviewed and extended")
	}
	r.ok(rule, strings.Join(mods, ","), "", fmt.Sprintf("%d footprint elements (entry × write/delete prefix, entry × bank operation) of modules %v are all in the reviewed table", n, mods))
}
