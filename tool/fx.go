package main

// F9 — formula conformance: abstract evaluation of straight-line math.Int /
// LegacyDec / big.Int code into rational functions with rounding markers, and
// comparison (by cross-multiplication of normalised polynomials; no solver, no
// execution) with reference closed forms.

import (
	"fmt"
	"go/constant"
	"go/token"
	"math/big"
	"sort"
	"strconv"
	"strings"

	"golang.org/x/tools/go/ssa"
)

// ---------------------------------------------------------------- polynomials

type Poly map[string]*big.Int // monomial ("a*b^2", "" = 1) -> coefficient

func pConst(n int64) Poly {
	if n == 0 {
		return Poly{}
	}
	return Poly{"": big.NewInt(n)}
}
func pBig(n *big.Int) Poly {
	if n.Sign() == 0 {
		return Poly{}
	}
	return Poly{"": new(big.Int).Set(n)}
}
func pSym(s string) Poly { return Poly{s: big.NewInt(1)} }

func pAdd(a, b Poly) Poly {
	out := Poly{}
	for k, v := range a {
		out[k] = new(big.Int).Set(v)
	}
	for k, v := range b {
		if o, ok := out[k]; ok {
			o.Add(o, v)
			if o.Sign() == 0 {
				delete(out, k)
			}
		} else {
			out[k] = new(big.Int).Set(v)
		}
	}
	return out
}
func pNeg(a Poly) Poly {
	out := Poly{}
	for k, v := range a {
		out[k] = new(big.Int).Neg(v)
	}
	return out
}
func monoMul(a, b string) string {
	if a == "" {
		return b
	}
	if b == "" {
		return a
	}
	exp := map[string]int{}
	for _, m := range []string{a, b} {
		for _, f := range strings.Split(m, "*") {
			name, e := f, 1
			if i := strings.LastIndex(f, "^"); i >= 0 {
				if n, err := strconv.Atoi(f[i+1:]); err == nil {
					name, e = f[:i], n
				}
			}
			exp[name] += e
		}
	}
	var names []string
	for n := range exp {
		names = append(names, n)
	}
	sort.Strings(names)
	var parts []string
	for _, n := range names {
		if exp[n] == 1 {
			parts = append(parts, n)
		} else {
			parts = append(parts, fmt.Sprintf("%s^%d", n, exp[n]))
		}
	}
	return strings.Join(parts, "*")
}
func pMul(a, b Poly) Poly {
	out := Poly{}
	for ka, va := range a {
		for kb, vb := range b {
			k := monoMul(ka, kb)
			c := new(big.Int).Mul(va, vb)
			if o, ok := out[k]; ok {
				o.Add(o, c)
				if o.Sign() == 0 {
					delete(out, k)
				}
			} else if c.Sign() != 0 {
				out[k] = c
			}
		}
	}
	return out
}
func pEq(a, b Poly) bool {
	if len(a) != len(b) {
		return false
	}
	for k, v := range a {
		w, ok := b[k]
		if !ok || v.Cmp(w) != 0 {
			return false
		}
	}
	return true
}
func (p Poly) String() string {
	if len(p) == 0 {
		return "0"
	}
	var ks []string
	for k := range p {
		ks = append(ks, k)
	}
	sort.Strings(ks)
	var parts []string
	for _, k := range ks {
		c := p[k].String()
		switch {
		case k == "":
			parts = append(parts, c)
		case c == "1":
			parts = append(parts, k)
		case c == "-1":
			parts = append(parts, "-"+k)
		default:
			parts = append(parts, c+"*"+k)
		}
	}
	return strings.Join(parts, " + ")
}
func (p Poly) isConst() (*big.Int, bool) {
	if len(p) == 0 {
		return big.NewInt(0), true
	}
	if len(p) == 1 {
		if c, ok := p[""]; ok {
			return c, true
		}
	}
	return nil, false
}

// Rat is an exact rational function N/D.
type Rat struct{ N, D Poly }

func rPoly(p Poly) Rat   { return Rat{p, pConst(1)} }
func rConst(n int64) Rat { return rPoly(pConst(n)) }
func rSym(s string) Rat  { return rPoly(pSym(s)) }
func rAdd(a, b Rat) Rat  { return rNorm(Rat{pAdd(pMul(a.N, b.D), pMul(b.N, a.D)), pMul(a.D, b.D)}) }
func rSub(a, b Rat) Rat  { return rAdd(a, Rat{pNeg(b.N), b.D}) }
func rMul(a, b Rat) Rat  { return rNorm(Rat{pMul(a.N, b.N), pMul(a.D, b.D)}) }
func rDiv(a, b Rat) Rat  { return rNorm(Rat{pMul(a.N, b.D), pMul(a.D, b.N)}) }
func rEq(a, b Rat) bool  { return pEq(pMul(a.N, b.D), pMul(b.N, a.D)) }
func (r Rat) String() string {
	if c, ok := r.D.isConst(); ok && c.Cmp(big.NewInt(1)) == 0 {
		return r.N.String()
	}
	return "(" + r.N.String() + ") / (" + r.D.String() + ")"
}

func monoExps(m string) map[string]int {
	exp := map[string]int{}
	if m == "" {
		return exp
	}
	for _, f := range strings.Split(m, "*") {
		name, e := f, 1
		if i := strings.LastIndex(f, "^"); i >= 0 {
			if n, err := strconv.Atoi(f[i+1:]); err == nil {
				name, e = f[:i], n
			}
		}
		exp[name] += e
	}
	return exp
}

func monoFromExps(exp map[string]int) string {
	var names []string
	for n, e := range exp {
		if e > 0 {
			names = append(names, n)
		}
	}
	sort.Strings(names)
	var parts []string
	for _, n := range names {
		if exp[n] == 1 {
			parts = append(parts, n)
		} else {
			parts = append(parts, fmt.Sprintf("%s^%d", n, exp[n]))
		}
	}
	return strings.Join(parts, "*")
}

// content: the monomial and integer dividing every term of p.
func pContent(p Poly) (map[string]int, *big.Int) {
	var exps map[string]int
	g := new(big.Int)
	for k, c := range p {
		e := monoExps(k)
		if exps == nil {
			exps = e
		} else {
			for n := range exps {
				if e[n] < exps[n] {
					exps[n] = e[n]
				}
			}
		}
		g.GCD(nil, nil, g, new(big.Int).Abs(c))
	}
	if exps == nil {
		exps = map[string]int{}
	}
	return exps, g
}

func pDivContent(p Poly, exps map[string]int, g *big.Int) Poly {
	out := Poly{}
	for k, c := range p {
		e := monoExps(k)
		for n, x := range exps {
			e[n] -= x
		}
		out[monoFromExps(e)] = new(big.Int).Quo(c, g)
	}
	return out
}

// rNorm cancels the common monomial and integer content of numerator and denominator.
func rNorm(r Rat) Rat {
	if pEq(r.N, r.D) && len(r.D) > 0 {
		return rConst(1)
	}
	if len(r.N) == 0 {
		return rConst(0)
	}
	if len(r.D) > 0 {
		en, gn := pContent(r.N)
		ed, gd := pContent(r.D)
		common := map[string]int{}
		for n, x := range en {
			if y := ed[n]; y > 0 && x > 0 {
				if y < x {
					common[n] = y
				} else {
					common[n] = x
				}
			}
		}
		g := new(big.Int).GCD(nil, nil, gn, gd)
		if g.Sign() == 0 {
			g = big.NewInt(1)
		}
		if len(common) > 0 || g.Cmp(big.NewInt(1)) != 0 {
			r = Rat{pDivContent(r.N, common, g), pDivContent(r.D, common, g)}
		}
		// keep the denominator's leading sign positive when it is a constant
		if c, ok := r.D.isConst(); ok && c.Sign() < 0 {
			r = Rat{pNeg(r.N), pNeg(r.D)}
		}
	}
	// cancel a common single-monomial, constant factor where the denominator is one monomial
	if len(r.D) == 1 {
		for dk, dc := range r.D {
			if dk == "" {
				// integer denominator: divide if all numerator coefficients are divisible
				all := true
				for _, c := range r.N {
					if new(big.Int).Mod(c, dc).Sign() != 0 {
						all = false
					}
				}
				if all && dc.Sign() != 0 {
					n := Poly{}
					for k, c := range r.N {
						n[k] = new(big.Int).Quo(c, dc)
					}
					return Rat{n, pConst(1)}
				}
			}
		}
	}
	return r
}

// ---------------------------------------------------------------- evaluator

type fxNode struct {
	kind string // floor | sqrt | round
	arg  Rat
	sym  string
}

type Fx struct {
	w       *Walker
	nodes   []*fxNode
	decSyms map[string]bool   // symbols that denote decimals (not integers)
	leaf    map[string]string // symbol -> loose term
	ids     map[string]string
	choice  map[*ssa.BasicBlock]int // path assumption: block -> predecessor index
	phis    map[*ssa.BasicBlock]bool
	err     string
}

func newFx(w *Walker) *Fx {
	return &Fx{w: w, decSyms: map[string]bool{}, leaf: map[string]string{}, choice: map[*ssa.BasicBlock]int{}, phis: map[*ssa.BasicBlock]bool{}}
}

func (fx *Fx) node(kind string, arg Rat) Rat {
	if kind == "floor" {
		// floor of an integer-valued polynomial is itself
		if c, ok := arg.D.isConst(); ok && c.Cmp(big.NewInt(1)) == 0 && !fx.mentionsDec(arg.N) {
			return arg
		}
	}
	for _, n := range fx.nodes {
		if n.kind == kind && rEq(n.arg, arg) {
			return rSym(n.sym)
		}
	}
	open, close := "⌊", "⌋"
	if kind == "sqrt" {
		open, close = "√⌊", "⌋"
	} else if kind == "round" {
		open, close = "⟦", "⟧"
	}
	n := &fxNode{kind: kind, arg: arg, sym: fmt.Sprintf("%s%d%s", open, len(fx.nodes), close)}
	fx.nodes = append(fx.nodes, n)
	switch kind {
	case "round", "floor18", "ceil18":
		fx.decSyms[n.sym] = true // decimal-valued
	}
	return rSym(n.sym)
}

func (fx *Fx) mentionsDec(p Poly) bool {
	for k := range p {
		for _, f := range strings.Split(k, "*") {
			name := f
			if i := strings.LastIndex(f, "^"); i >= 0 {
				name = f[:i]
			}
			if fx.decSyms[name] {
				return true
			}
		}
	}
	return false
}

// Describe expands node symbols for reports.
func (fx *Fx) Describe(r Rat) string {
	s := r.String()
	for round := 0; round < 8; round++ {
		before := s
		for i := len(fx.nodes) - 1; i >= 0; i-- {
			n := fx.nodes[i]
			s = strings.ReplaceAll(s, n.sym, n.kind+"["+n.arg.String()+"]")
		}
		if s == before {
			break
		}
	}
	return s
}

// substPoly replaces symbols by rationals.
func (fx *Fx) substSyms(r Rat, sub func(sym string) (Rat, bool)) Rat {
	evalPoly := func(p Poly) Rat {
		acc := rConst(0)
		for k, c := range p {
			term := rPoly(pBig(c))
			if k != "" {
				for _, f := range strings.Split(k, "*") {
					name, e := f, 1
					if i := strings.LastIndex(f, "^"); i >= 0 {
						if n, err := strconv.Atoi(f[i+1:]); err == nil {
							name, e = f[:i], n
						}
					}
					var base Rat
					if rep, ok := sub(name); ok {
						base = rep
					} else {
						base = rSym(name)
					}
					for j := 0; j < e; j++ {
						term = rMul(term, base)
					}
				}
			}
			acc = rAdd(acc, term)
		}
		return acc
	}
	return rDiv(evalPoly(r.N), evalPoly(r.D))
}

// StripRound removes 18-digit rounding markers (round/floor18/ceil18), keeping
// integer floors and square roots: the exact core of a decimal computation.
func (fx *Fx) StripRound(r Rat) Rat {
	for iter := 0; iter < 10; iter++ {
		changed := false
		r = fx.substSyms(r, func(sym string) (Rat, bool) {
			for _, n := range fx.nodes {
				if n.sym != sym {
					continue
				}
				switch n.kind {
				case "round", "floor18", "ceil18":
					changed = true
					return n.arg, true
				default:
					inner := fx.StripRound(n.arg)
					if !rEq(inner, n.arg) {
						changed = true
						return fx.node(n.kind, inner), true
					}
				}
			}
			return Rat{}, false
		})
		if !changed {
			break
		}
	}
	return r
}

type CoinAmt struct {
	Denom string
	Amt   Rat
	Val   ssa.Value
}

// CoinAmounts decodes a value of type sdk.Coin / sdk.Coins into (denom term,
// amount expression) pairs, following parameters and irismod callees.
func (fx *Fx) CoinAmounts(v ssa.Value, fr *Frame) []CoinAmt { return fx.coins(v, fr, 0) }

func (fx *Fx) coins(v ssa.Value, fr *Frame, depth int) []CoinAmt {
	if depth > 40 {
		return nil
	}
	leaf := func() []CoinAmt {
		t := fx.w.ts.Of(v, fr)
		if typeIs(v.Type(), "github.com/cosmos/cosmos-sdk/types", "Coin") {
			return []CoinAmt{{Denom: simplifyField(t, "Denom").LooseString(), Amt: fx.evalTerm(simplifyField(t, "Amount"), false, depth+1), Val: v}}
		}
		// coins(coin(d, a), …) as a term: the SSA-level construction was not followed (the
		// coin travelled in a record through options or closures)
		if t.Op == "call" && t.Name == "coins" && len(t.Args) > 0 {
			var out []CoinAmt
			for _, c := range t.Args {
				if c.Op != "call" || c.Name != "coin" || len(c.Args) != 2 {
					out = nil
					break
				}
				out = append(out, CoinAmt{Denom: c.Args[0].LooseString(), Amt: fx.evalTerm(c.Args[1], false, depth+1), Val: v})
			}
			if out != nil {
				return out
			}
		}
		return []CoinAmt{{Denom: "*" + t.LooseString(), Amt: fx.symForTerm(t.LooseString(), false), Val: v}}
	}
	switch x := v.(type) {
	case *ssa.Parameter:
		if fr != nil && fr.Call != nil {
			fn := x.Parent()
			for i, p := range fn.Params {
				if p == x {
					c := fr.Call.Common()
					idx := i
					if c.IsInvoke() {
						idx--
					}
					if idx >= 0 && idx < len(c.Args) {
						return fx.coins(c.Args[idx], fr.Parent, depth+1)
					}
				}
			}
		}
		return leaf()
	case *ssa.Phi:
		b := x.Block()
		fx.phis[b] = true
		if i, ok := fx.choice[b]; ok && i < len(x.Edges) {
			return fx.coins(x.Edges[i], fr, depth+1)
		}
		return leaf()
	case *ssa.Field:
		if sv, sfr := fx.structField(x.X, x.Field, fr, 0); sv != nil {
			return fx.coins(sv, sfr, depth+1)
		}
		return leaf()
	case *ssa.UnOp:
		if x.Op == token.MUL {
			if fa, ok := x.X.(*ssa.FieldAddr); ok {
				if a, isAlloc := fa.X.(*ssa.Alloc); isAlloc {
					if sv, sfr := fx.structFieldOfAlloc(a, fa.Field, fr, 0, x); sv != nil {
						return fx.coins(sv, sfr, depth+1)
					}
				}
			}
			if a, ok := x.X.(*ssa.Alloc); ok {
				var sv ssa.Value
				n := 0
				for _, r := range *a.Referrers() {
					if st, ok := r.(*ssa.Store); ok && st.Addr == a {
						sv = st.Val
						n++
					}
				}
				if n == 1 {
					return fx.coins(sv, fr, depth+1)
				}
			}
		}
		return leaf()
	case *ssa.Extract:
		if c, ok := x.Tuple.(*ssa.Call); ok {
			if g := c.Common().StaticCallee(); g != nil && g.Blocks != nil && isIrismodFunc(g) && !onChain(fr, g) {
				nfr := &Frame{Fn: g, Parent: fr, Call: c, Depth: frameDepth(fr)}
				var out []CoinAmt
				n := 0
				for _, ret := range returnsOf(g) {
					if isFailureReturn(ret) || x.Index >= len(ret.Results) {
						continue
					}
					n++
					if n == 1 {
						out = fx.coins(ret.Results[x.Index], nfr, depth+1)
					}
				}
				if n == 1 {
					return out
				}
			}
		}
		return leaf()
	case *ssa.Call:
		c := x.Common()
		pkg, name := calleeName(c)
		if pkg == "github.com/cosmos/cosmos-sdk/types" {
			switch name {
			case "NewCoin":
				return []CoinAmt{{Denom: fx.w.ts.Of(c.Args[0], fr).LooseString(), Amt: fx.eval(c.Args[1], fr, depth+1), Val: c.Args[1]}}
			case "NewCoins":
				var out []CoinAmt
				for _, e := range variadicElems(c.Args[0]) {
					out = append(out, fx.coins(e, fr, depth+1)...)
				}
				if len(out) > 0 {
					return out
				}
			case "Coins.Add":
				out := fx.coins(c.Args[0], fr, depth+1)
				for _, e := range variadicElems(c.Args[1]) {
					out = append(out, fx.coins(e, fr, depth+1)...)
				}
				return out
			}
		}
		if g := c.StaticCallee(); g != nil && g.Blocks != nil && isIrismodFunc(g) && !onChain(fr, g) && g.Signature.Results().Len() == 1 {
			nfr := &Frame{Fn: g, Parent: fr, Call: x, Depth: frameDepth(fr)}
			rets := returnsOf(g)
			if len(rets) == 1 {
				return fx.coins(rets[0].Results[0], nfr, depth+1)
			}
		}
		return leaf()
	}
	return leaf()
}

// PathCombos enumerates predecessor choices for the given phi blocks.
func pathCombos(blocks []*ssa.BasicBlock) []map[*ssa.BasicBlock]int {
	out := []map[*ssa.BasicBlock]int{{}}
	for _, b := range blocks {
		var next []map[*ssa.BasicBlock]int
		for _, m := range out {
			for i := range b.Preds {
				nm := map[*ssa.BasicBlock]int{}
				for k, v := range m {
					nm[k] = v
				}
				nm[b] = i
				next = append(next, nm)
			}
		}
		out = next
		if len(out) > 64 {
			break
		}
	}
	return out
}

// Legend lists the leaf symbols occurring in r.
func (fx *Fx) Legend(r Rat) string {
	lv := fx.leavesOf(r)
	var ks []string
	for k := range lv {
		ks = append(ks, k)
	}
	sort.Slice(ks, func(i, j int) bool {
		a, _ := strconv.Atoi(strings.TrimPrefix(ks[i], "v"))
		b, _ := strconv.Atoi(strings.TrimPrefix(ks[j], "v"))
		return a < b
	})
	var parts []string
	for _, k := range ks {
		parts = append(parts, k+"="+lv[k])
	}
	return strings.Join(parts, "; ")
}

var e18 = new(big.Int).Exp(big.NewInt(10), big.NewInt(18), nil)

func (fx *Fx) symFor(v ssa.Value, fr *Frame, dec bool) Rat {
	// what the SSA-level evaluation could not follow (a value kept in a record that reached
	// this frame through options, closures, interface routes) is read off its origin term:
	// arithmetic in the term keeps its structure, everything else is a symbol as before
	return fx.evalTerm(fx.w.ts.Of(v, fr), dec, 0)
}

// evalTerm: the value of an origin term; the leaves are symbols named by their loose text.
func (fx *Fx) evalTerm(t *Term, dec bool, depth int) Rat {
	if t == nil {
		return fx.symForTerm("?nil", dec)
	}
	if depth > 40 {
		return fx.symForTerm(t.LooseString(), dec)
	}
	arg := func(i int, d bool) Rat {
		if i < len(t.Args) {
			return fx.evalTerm(t.Args[i], d, depth+1)
		}
		return rConst(0)
	}
	constArg := func(i int) (int64, bool) {
		if i < len(t.Args) && t.Args[i].Op == "const" {
			var n int64
			if _, err := fmt.Sscan(t.Args[i].Name, &n); err == nil && fmt.Sprint(n) == t.Args[i].Name {
				return n, true
			}
		}
		return 0, false
	}
	switch t.Op {
	case "const":
		var n int64
		if _, err := fmt.Sscan(t.Name, &n); err == nil && fmt.Sprint(n) == t.Name {
			return rConst(n)
		}
	case "call":
		switch t.Name {
		case "math.Int.Add":
			return rAdd(arg(0, false), arg(1, false))
		case "math.LegacyDec.Add":
			return rAdd(arg(0, true), arg(1, true))
		case "math.Int.Sub":
			return rSub(arg(0, false), arg(1, false))
		case "math.LegacyDec.Sub":
			return rSub(arg(0, true), arg(1, true))
		case "math.Int.Mul":
			return rMul(arg(0, false), arg(1, false))
		case "math.Int.Quo":
			return fx.node("floor", rDiv(arg(0, false), arg(1, false)))
		case "math.Int.AddRaw", "math.Int.SubRaw", "math.Int.MulRaw", "math.Int.QuoRaw":
			if n, ok := constArg(1); ok {
				switch t.Name {
				case "math.Int.AddRaw":
					return rAdd(arg(0, false), rConst(n))
				case "math.Int.SubRaw":
					return rSub(arg(0, false), rConst(n))
				case "math.Int.MulRaw":
					return rMul(arg(0, false), rConst(n))
				default:
					return fx.node("floor", rDiv(arg(0, false), rConst(n)))
				}
			}
		case "math.OneInt", "math.LegacyOneDec":
			return rConst(1)
		case "math.ZeroInt", "math.LegacyZeroDec":
			return rConst(0)
		case "math.NewInt", "math.NewIntFromUint64", "math.LegacyNewDec":
			if n, ok := constArg(0); ok {
				return rConst(n)
			}
			return arg(0, false)
		case "math.NewIntFromBigInt", "math.Int.BigInt", "math.LegacyNewDecFromInt", "math.LegacyDec.Clone", "math.LegacyNewDecFromBigInt":
			return arg(0, false)
		case "math.LegacyDec.BigInt":
			return rMul(arg(0, true), rPoly(pBig(e18)))
		case "math.LegacyDec.Mul", "math.LegacyDec.MulInt":
			return fx.node("round", rMul(arg(0, true), arg(1, t.Name == "math.LegacyDec.Mul")))
		case "math.LegacyDec.MulTruncate":
			return fx.node("floor18", rMul(arg(0, true), arg(1, true)))
		case "math.LegacyDec.Quo", "math.LegacyDec.QuoInt":
			return fx.node("round", rDiv(arg(0, true), arg(1, t.Name == "math.LegacyDec.Quo")))
		case "math.LegacyDec.QuoTruncate":
			return fx.node("floor18", rDiv(arg(0, true), arg(1, true)))
		case "math.LegacyDec.QuoRoundUp":
			return fx.node("ceil18", rDiv(arg(0, true), arg(1, true)))
		case "math.LegacyDec.TruncateInt", "math.LegacyDec.TruncateDec", "math.LegacyDec.TruncateInt64":
			return fx.node("floor", arg(0, true))
		case "math.LegacyDec.RoundInt", "math.LegacyDec.RoundInt64":
			return fx.node("roundint", arg(0, true))
		case "math.LegacyDec.Ceil":
			return fx.node("ceil", arg(0, true))
		}
	}
	// a pure irismod helper (a price function): evaluated in its body, on the call the term came from
	if t.Op == "call" && t.src != nil && depth < 8 {
		if r, ok := fx.evalCallee(t.src, t.fr, 0, depth+1); ok {
			return r
		}
	}
	return fx.symForTerm(t.LooseString(), dec)
}

// symForTerm allocates one symbol id per distinct loose term (ids contain no
// '*' or '^', which the monomial encoding reserves).
func (fx *Fx) symForTerm(t string, dec bool) Rat {
	if fx.ids == nil {
		fx.ids = map[string]string{}
	}
	s, ok := fx.ids[t]
	if !ok {
		s = fmt.Sprintf("v%d", len(fx.ids)+1)
		fx.ids[t] = s
		fx.leaf[s] = t
	}
	if dec {
		fx.decSyms[s] = true
	}
	return rSym(s)
}

func isDecType(v ssa.Value) bool { return typeIs(v.Type(), "cosmossdk.io/math", "LegacyDec") }

// Eval evaluates an integer- or decimal-valued SSA value. Decimals are
// represented by their real value (not the mantissa).
func (fx *Fx) Eval(v ssa.Value, fr *Frame) Rat { return fx.eval(v, fr, 0) }

func (fx *Fx) eval(v ssa.Value, fr *Frame, depth int) Rat {
	if depth > 80 {
		fx.err = "expression too deep"
		return rSym("?deep")
	}
	switch x := v.(type) {
	case *ssa.Const:
		if x.Value != nil && x.Value.Kind() == constant.Int {
			if n, ok := new(big.Int).SetString(x.Value.ExactString(), 10); ok {
				return rPoly(pBig(n))
			}
		}
		return fx.symFor(v, fr, false)
	case *ssa.Parameter:
		if fr != nil && fr.Call != nil {
			fn := x.Parent()
			idx := -1
			for i, p := range fn.Params {
				if p == x {
					idx = i
				}
			}
			c := fr.Call.Common()
			args := c.Args
			if c.IsInvoke() {
				if idx == 0 {
					return fx.eval(c.Value, fr.Parent, depth+1)
				}
				idx--
			}
			if idx >= 0 && idx < len(args) {
				return fx.eval(args[idx], fr.Parent, depth+1)
			}
		}
		return fx.symFor(v, fr, isDecType(v))
	case *ssa.FreeVar:
		if fr != nil && fr.MC != nil {
			fn := x.Parent()
			for i, fv := range fn.FreeVars {
				if fv == x && i < len(fr.MC.Bindings) {
					return fx.eval(fr.MC.Bindings[i], fr.Parent, depth+1)
				}
			}
		}
		return fx.symFor(v, fr, isDecType(v))
	case *ssa.Phi:
		b := x.Block()
		fx.phis[b] = true
		if i, ok := fx.choice[b]; ok && i < len(x.Edges) {
			return fx.eval(x.Edges[i], fr, depth+1)
		}
		// all edges equal?
		var first *Rat
		same := true
		for _, e := range x.Edges {
			r := fx.eval(e, fr, depth+1)
			if first == nil {
				first = &r
			} else if !rEq(*first, r) {
				same = false
			}
		}
		if same && first != nil {
			return *first
		}
		return fx.symFor(v, fr, isDecType(v))
	case *ssa.Alloc:
		// a *big.Int built in place: z := &big.Int{}; z.Sqrt(x) — the single mutating call defines it
		if typeIs(x.Type(), "math/big", "Int") {
			var def *ssa.Call
			n := 0
			for _, r := range *x.Referrers() {
				if c, ok := r.(*ssa.Call); ok && !c.Common().IsInvoke() && len(c.Common().Args) > 0 && c.Common().Args[0] == x {
					if pkg, name := calleeName(c.Common()); pkg == "math/big" {
						switch name {
						case "Int.Sqrt", "Int.Add", "Int.Sub", "Int.Mul", "Int.Div", "Int.Quo", "Int.Set":
							def = c
							n++
						}
					}
				}
			}
			if n == 1 {
				return fx.evalCall(def, fr, depth+1)
			}
		}
		return fx.symFor(v, fr, false)
	case *ssa.Field:
		if fieldNameShort(x.X.Type(), x.Field) == "Amount" && typeIs(x.X.Type(), "github.com/cosmos/cosmos-sdk/types", "Coin") {
			if cs := fx.coins(x.X, fr, depth+1); len(cs) == 1 {
				return cs[0].Amt
			}
		}
		if sv, sfr := fx.structField(x.X, x.Field, fr, 0); sv != nil {
			return fx.eval(sv, sfr, depth+1)
		}
		return fx.symFor(v, fr, isDecType(v))
	case *ssa.UnOp:
		if x.Op == token.MUL {
			// amount of a coin held in a local / parameter
			if fa, ok := x.X.(*ssa.FieldAddr); ok && fieldNameShort(fa.X.Type(), fa.Field) == "Amount" && typeIs(fa.X.Type(), "github.com/cosmos/cosmos-sdk/types", "Coin") {
				if a, ok := fa.X.(*ssa.Alloc); ok {
					var sv ssa.Value
					n := 0
					for _, r := range *a.Referrers() {
						if st, ok := r.(*ssa.Store); ok && st.Addr == a {
							sv = st.Val
							n++
						}
					}
					if n == 1 {
						if cs := fx.coins(sv, fr, depth+1); len(cs) == 1 {
							return cs[0].Amt
						}
					}
				}
			}
			// a number kept in a field of a local record
			if fa, ok := x.X.(*ssa.FieldAddr); ok {
				if a, isAlloc := fa.X.(*ssa.Alloc); isAlloc {
					if sv, sfr := fx.structFieldOfAlloc(a, fa.Field, fr, 0, x); sv != nil {
						return fx.eval(sv, sfr, depth+1)
					}
				}
			}
			// load: single-store local
			if a, ok := x.X.(*ssa.Alloc); ok {
				var sv ssa.Value
				n := 0
				for _, r := range *a.Referrers() {
					if st, ok := r.(*ssa.Store); ok && st.Addr == a {
						sv = st.Val
						n++
					}
				}
				if n == 1 {
					return fx.eval(sv, fr, depth+1)
				}
			}
			return fx.symFor(v, fr, isDecType(v))
		}
		if x.Op == token.SUB {
			return rSub(rConst(0), fx.eval(x.X, fr, depth+1))
		}
	case *ssa.BinOp:
		a, b := fx.eval(x.X, fr, depth+1), fx.eval(x.Y, fr, depth+1)
		switch x.Op {
		case token.ADD:
			return rAdd(a, b)
		case token.SUB:
			return rSub(a, b)
		case token.MUL:
			return rMul(a, b)
		case token.QUO:
			return fx.node("floor", rDiv(a, b))
		}
	case *ssa.Convert:
		return fx.eval(x.X, fr, depth+1)
	case *ssa.ChangeType:
		return fx.eval(x.X, fr, depth+1)
	case *ssa.MakeInterface:
		return fx.eval(x.X, fr, depth+1)
	case *ssa.Extract:
		if c, ok := x.Tuple.(*ssa.Call); ok {
			if r, ok := fx.evalCallee(c, fr, x.Index, depth); ok {
				return r
			}
		}
		return fx.symFor(v, fr, isDecType(v))
	case *ssa.Call:
		return fx.evalCall(x, fr, depth)
	}
	return fx.symFor(v, fr, isDecType(v))
}

// evalCallee descends into an irismod callee and evaluates result idx over its
// non-failing returns (they must agree).
func (fx *Fx) evalCallee(c *ssa.Call, fr *Frame, idx int, depth int) (Rat, bool) {
	g := c.Common().StaticCallee()
	if g == nil || g.Blocks == nil || !isIrismodFunc(g) || onChain(fr, g) {
		return Rat{}, false
	}
	nfr := &Frame{Fn: g, Parent: fr, Call: c, Depth: frameDepth(fr)}
	var rets []*ssa.Return
	for _, ret := range returnsOf(g) {
		if !isFailureReturn(ret) && idx < len(ret.Results) {
			rets = append(rets, ret)
		}
	}
	if len(rets) == 0 {
		return Rat{}, false
	}
	// several successful returns (early return style): which one is taken is a path
	// choice like a phi's, enumerated by the caller through a pseudo block
	if len(rets) > 1 {
		pb := fxRetBlock(g, len(rets))
		fx.phis[pb] = true
		if i, ok := fx.choice[pb]; ok && i < len(rets) {
			return fx.eval(rets[i].Results[idx], nfr, depth+1), true
		}
	}
	var res *Rat
	for _, ret := range rets {
		r := fx.eval(ret.Results[idx], nfr, depth+1)
		if res == nil {
			res = &r
		} else if !rEq(*res, r) {
			return Rat{}, false
		}
	}
	return *res, true
}

var fxRetBlocks = map[*ssa.Function]*ssa.BasicBlock{}

// fxRetBlock: a pseudo block standing for "which successful return of g is
// taken"; it has one (nil) predecessor per return so that pathCombos
// enumerates the choices exactly like the edges of a phi.
func fxRetBlock(g *ssa.Function, n int) *ssa.BasicBlock {
	if b, ok := fxRetBlocks[g]; ok && len(b.Preds) == n {
		return b
	}
	b := &ssa.BasicBlock{Index: -1, Comment: "returns of " + g.String(), Preds: make([]*ssa.BasicBlock, n)}
	fxRetBlocks[g] = b
	return b
}

func (fx *Fx) evalCall(x *ssa.Call, fr *Frame, depth int) Rat {
	c := x.Common()
	pkg, name := calleeName(c)
	arg := func(i int) Rat {
		if i < len(c.Args) {
			return fx.eval(c.Args[i], fr, depth+1)
		}
		return rConst(0)
	}
	constArg := func(i int) (int64, bool) {
		if i < len(c.Args) {
			if k, ok := c.Args[i].(*ssa.Const); ok && k.Value != nil && k.Value.Kind() == constant.Int {
				n, ok := constant.Int64Val(k.Value)
				return n, ok
			}
			// named constant through conversion
			if cv, ok := c.Args[i].(*ssa.Convert); ok {
				if k, ok := cv.X.(*ssa.Const); ok && k.Value != nil {
					n, ok := constant.Int64Val(k.Value)
					return n, ok
				}
			}
		}
		return 0, false
	}
	pow10 := func(n int64) Rat {
		if n >= 0 {
			return rPoly(pBig(new(big.Int).Exp(big.NewInt(10), big.NewInt(n), nil)))
		}
		return Rat{pConst(1), pBig(new(big.Int).Exp(big.NewInt(10), big.NewInt(-n), nil))}
	}
	if pkg == "cosmossdk.io/math" {
		switch name {
		case "Int.Add", "LegacyDec.Add":
			return rAdd(arg(0), arg(1))
		case "Int.Sub", "LegacyDec.Sub":
			return rSub(arg(0), arg(1))
		case "Int.Mul":
			return rMul(arg(0), arg(1))
		case "Int.Quo":
			return fx.node("floor", rDiv(arg(0), arg(1)))
		case "Int.AddRaw", "Int.SubRaw", "Int.MulRaw", "Int.QuoRaw":
			n, ok := constArg(1)
			if !ok {
				break
			}
			switch name {
			case "Int.AddRaw":
				return rAdd(arg(0), rConst(n))
			case "Int.SubRaw":
				return rSub(arg(0), rConst(n))
			case "Int.MulRaw":
				return rMul(arg(0), rConst(n))
			default:
				return fx.node("floor", rDiv(arg(0), rConst(n)))
			}
		case "Int.Neg", "LegacyDec.Neg":
			return rSub(rConst(0), arg(0))
		case "OneInt", "LegacyOneDec":
			return rConst(1)
		case "ZeroInt", "LegacyZeroDec":
			return rConst(0)
		case "NewInt", "NewIntFromUint64", "LegacyNewDec":
			if n, ok := constArg(0); ok {
				return rConst(n)
			}
			return arg(0)
		case "NewIntFromBigInt", "Int.BigInt", "LegacyNewDecFromInt", "LegacyDec.Clone", "LegacyNewDecFromBigInt":
			return arg(0)
		case "NewIntWithDecimal":
			n, ok1 := constArg(0)
			k, ok2 := constArg(1)
			if ok1 && ok2 {
				return rMul(rConst(n), pow10(k))
			}
			if ok1 {
				// 10^k with symbolic k: one symbol per exponent term
				t := fx.w.ts.Of(c.Args[1], fr).LooseString()
				return rMul(rConst(n), fx.symForTerm("10^("+t+")", false))
			}
		case "LegacyNewDecWithPrec":
			n, ok1 := constArg(0)
			k, ok2 := constArg(1)
			if ok1 && ok2 {
				return rMul(rConst(n), pow10(-k))
			}
			if ok1 {
				t := fx.w.ts.Of(c.Args[1], fr).LooseString()
				return rDiv(rConst(n), fx.symForTerm("10^("+t+")", false))
			}
		case "LegacyDec.BigInt":
			// mantissa of an 18-digit decimal
			return rMul(arg(0), rPoly(pBig(e18)))
		case "LegacyDec.Mul", "LegacyDec.MulInt":
			return fx.node("round", rMul(arg(0), arg(1)))
		case "LegacyDec.MulTruncate":
			return fx.node("floor18", rMul(arg(0), arg(1)))
		case "LegacyDec.Quo", "LegacyDec.QuoInt":
			return fx.node("round", rDiv(arg(0), arg(1)))
		case "LegacyDec.QuoTruncate":
			return fx.node("floor18", rDiv(arg(0), arg(1)))
		case "LegacyDec.QuoRoundUp":
			return fx.node("ceil18", rDiv(arg(0), arg(1)))
		case "LegacyDec.TruncateInt", "LegacyDec.TruncateDec", "LegacyDec.TruncateInt64":
			return fx.node("floor", arg(0))
		case "LegacyDec.RoundInt", "LegacyDec.RoundInt64":
			return fx.node("roundint", arg(0))
		case "LegacyDec.Ceil":
			return fx.node("ceil", arg(0))
		}
	}
	if pkg == "math/big" {
		switch name {
		case "Int.Sqrt":
			return fx.node("sqrt", arg(1))
		case "Int.Add":
			return rAdd(arg(1), arg(2))
		case "Int.Sub":
			return rSub(arg(1), arg(2))
		case "Int.Mul":
			return rMul(arg(1), arg(2))
		case "Int.Div", "Int.Quo":
			return fx.node("floor", rDiv(arg(1), arg(2)))
		case "Int.Set":
			return arg(1)
		case "NewInt":
			if n, ok := constArg(0); ok {
				return rConst(n)
			}
		}
	}
	if r, ok := fx.evalCallee(x, fr, 0, depth); ok {
		return r
	}
	return fx.symFor(x, fr, isDecType(x))
}

// ---------------------------------------------------------------- reference DSL

// Ref parses a closed form such as "floor(a*D*y / (x*E + a*D)) + 1" with the
// given bindings (symbol -> Rat). Functions: floor, isqrt, round18.
func (fx *Fx) Ref(src string, bind map[string]Rat) (Rat, error) {
	p := &refParser{fx: fx, s: src, bind: bind}
	r := p.expr()
	p.ws()
	if p.err == "" && p.i < len(p.s) {
		p.err = "trailing input at " + p.s[p.i:]
	}
	if p.err != "" {
		return Rat{}, fmt.Errorf("reference %q: %s", src, p.err)
	}
	return r, nil
}

type refParser struct {
	fx   *Fx
	s    string
	i    int
	bind map[string]Rat
	err  string
}

func (p *refParser) ws() {
	for p.i < len(p.s) && (p.s[p.i] == ' ' || p.s[p.i] == '\t' || p.s[p.i] == '\n') {
		p.i++
	}
}
func (p *refParser) peek() byte {
	p.ws()
	if p.i < len(p.s) {
		return p.s[p.i]
	}
	return 0
}
func (p *refParser) expr() Rat {
	l := p.term()
	for {
		switch p.peek() {
		case '+':
			p.i++
			l = rAdd(l, p.term())
		case '-':
			p.i++
			l = rSub(l, p.term())
		default:
			return l
		}
	}
}
func (p *refParser) term() Rat {
	l := p.factor()
	for {
		switch p.peek() {
		case '*':
			p.i++
			l = rMul(l, p.factor())
		case '/':
			p.i++
			l = rDiv(l, p.factor())
		default:
			return l
		}
	}
}
func (p *refParser) factor() Rat {
	b := p.atom()
	if p.peek() == '^' {
		p.i++
		p.ws()
		j := p.i
		for p.i < len(p.s) && p.s[p.i] >= '0' && p.s[p.i] <= '9' {
			p.i++
		}
		n, _ := strconv.Atoi(p.s[j:p.i])
		r := rConst(1)
		for k := 0; k < n; k++ {
			r = rMul(r, b)
		}
		return r
	}
	return b
}
func (p *refParser) atom() Rat {
	c := p.peek()
	switch {
	case c == '(':
		p.i++
		r := p.expr()
		if p.peek() != ')' {
			p.err = "missing )"
		} else {
			p.i++
		}
		return r
	case c == '-':
		p.i++
		return rSub(rConst(0), p.atom())
	case c >= '0' && c <= '9':
		j := p.i
		for p.i < len(p.s) && p.s[p.i] >= '0' && p.s[p.i] <= '9' {
			p.i++
		}
		n, _ := new(big.Int).SetString(p.s[j:p.i], 10)
		return rPoly(pBig(n))
	case c == '_' || c >= 'a' && c <= 'z' || c >= 'A' && c <= 'Z':
		j := p.i
		for p.i < len(p.s) && (p.s[p.i] == '_' || p.s[p.i] >= 'a' && p.s[p.i] <= 'z' || p.s[p.i] >= 'A' && p.s[p.i] <= 'Z' || p.s[p.i] >= '0' && p.s[p.i] <= '9') {
			p.i++
		}
		name := p.s[j:p.i]
		if p.peek() == '(' {
			p.i++
			a := p.expr()
			if p.peek() != ')' {
				p.err = "missing ) after " + name
			} else {
				p.i++
			}
			kind := map[string]string{"floor": "floor", "isqrt": "sqrt", "round18": "round", "ceil": "ceil"}[name]
			if kind == "" {
				p.err = "unknown function " + name
				return rConst(0)
			}
			return p.fx.node(kind, a)
		}
		if r, ok := p.bind[name]; ok {
			return r
		}
		p.err = "unbound symbol " + name
		return rConst(0)
	}
	p.err = fmt.Sprintf("unexpected %q", string(c))
	p.i++
	return rConst(0)
}

// leavesOf returns the leaf symbols (with their terms) occurring in r, expanding nodes.
func (fx *Fx) leavesOf(r Rat) map[string]string {
	out := map[string]string{}
	var visitPoly func(p Poly)
	seen := map[string]bool{}
	visitPoly = func(p Poly) {
		for k := range p {
			for _, f := range strings.Split(k, "*") {
				name := f
				if i := strings.LastIndex(f, "^"); i >= 0 {
					if _, err := strconv.Atoi(f[i+1:]); err == nil {
						name = f[:i]
					}
				}
				if name == "" || seen[name] {
					continue
				}
				seen[name] = true
				if t, ok := fx.leaf[name]; ok {
					out[name] = t
					continue
				}
				for _, n := range fx.nodes {
					if n.sym == name {
						visitPoly(n.arg.N)
						visitPoly(n.arg.D)
					}
				}
			}
		}
	}
	visitPoly(r.N)
	visitPoly(r.D)
	return out
}

// structField: the value stored into field #idx of the struct value v where it is
// assembled - in a local, in the callee that returns it (one successful return), or
// in the caller that passes it - together with the frame to read it in. (nil, nil)
// when the construction is not understood.
func (fx *Fx) structField(v ssa.Value, idx int, fr *Frame, depth int) (ssa.Value, *Frame) {
	if depth > 8 || v == nil {
		return nil, nil
	}
	switch x := v.(type) {
	case *ssa.UnOp:
		if x.Op == token.MUL {
			if a, ok := x.X.(*ssa.Alloc); ok {
				return fx.structFieldOfAlloc(a, idx, fr, depth+1, x)
			}
		}
	case *ssa.Extract:
		if c, ok := x.Tuple.(*ssa.Call); ok {
			return fx.structFieldOfCall(c, x.Index, idx, fr, depth+1)
		}
	case *ssa.Call:
		return fx.structFieldOfCall(x, 0, idx, fr, depth+1)
	case *ssa.Parameter:
		if fr != nil && fr.Call != nil {
			fn := x.Parent()
			for i, p := range fn.Params {
				if p != x {
					continue
				}
				c := fr.Call.Common()
				j := i
				if c.IsInvoke() {
					j--
				}
				if j >= 0 && j < len(c.Args) {
					return fx.structField(c.Args[j], idx, fr.Parent, depth+1)
				}
			}
		}
	case *ssa.Phi:
		b := x.Block()
		fx.phis[b] = true
		if i, ok := fx.choice[b]; ok && i < len(x.Edges) {
			return fx.structField(x.Edges[i], idx, fr, depth+1)
		}
	}
	return nil, nil
}

func (fx *Fx) structFieldOfAlloc(a *ssa.Alloc, idx int, fr *Frame, depth int, at ssa.Instruction) (ssa.Value, *Frame) {
	if a.Referrers() == nil {
		return nil, nil
	}
	var fieldSt, wholeSt []*ssa.Store
	for _, r := range *a.Referrers() {
		switch y := r.(type) {
		case *ssa.FieldAddr:
			if y.Field != idx || y.Referrers() == nil {
				continue
			}
			for _, r2 := range *y.Referrers() {
				if st, ok := r2.(*ssa.Store); ok && st.Addr == y {
					fieldSt = append(fieldSt, st)
				}
			}
		case *ssa.Store:
			if y.Addr == a {
				wholeSt = append(wholeSt, y)
			}
		}
	}
	// the stores the load can observe: a record started from default terms and re-priced
	// field by field (offer := opening(msg); …; offer.mint = x; use(offer.mint))
	if at != nil && at.Parent() == a.Parent() && len(fieldSt)+len(wholeSt) > 1 {
		wholeSt, fieldSt = reachingStores(wholeSt, fieldSt, at)
	}
	var fieldVal, whole ssa.Value
	nf, nw := len(fieldSt), len(wholeSt)
	if nf > 0 {
		fieldVal = fieldSt[0].Val
	}
	if nw > 0 {
		whole = wholeSt[0].Val
	}
	switch {
	case nf == 1 && nw == 0:
		return fieldVal, fr
	case nf == 0 && nw == 1:
		return fx.structField(whole, idx, fr, depth+1)
	}
	return nil, nil
}

func (fx *Fx) structFieldOfCall(c *ssa.Call, res, idx int, fr *Frame, depth int) (ssa.Value, *Frame) {
	g := c.Common().StaticCallee()
	if g == nil || g.Blocks == nil || !isIrismodFunc(g) || onChain(fr, g) {
		return nil, nil
	}
	nfr := &Frame{Fn: g, Parent: fr, Call: c, Depth: frameDepth(fr)}
	var got ssa.Value
	var gfr *Frame
	n := 0
	for _, ret := range returnsOf(g) {
		if isFailureReturn(ret) || res >= len(ret.Results) {
			continue
		}
		n++
		got, gfr = fx.structField(ret.Results[res], idx, nfr, depth+1)
	}
	if n == 1 {
		return got, gfr
	}
	return nil, nil
}
