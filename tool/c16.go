package main

// C16 — Parameters: authority guard on every governance-signed handler, the
// params key has one validated writer, Validate covers every numeric field that
// consensus code consumes, params-derived denominators are guarded.

import (
	"fmt"
	"go/token"
	"go/types"
	"regexp"
	"sort"
	"strings"

	"golang.org/x/tools/go/ssa"
)

func init() { register("C16", true, true, "other", runC16) }

func isParamsPrefix(p string) bool {
	return p == "str:params" || strings.Contains(p, ":ParamsKey=") || strings.Contains(p, ":PrefixParamsKey=")
}

func isMutatingKind(k string) bool {
	return k == "store.set" || k == "store.delete" || strings.HasPrefix(k, "bank.") || strings.HasPrefix(k, "nft.") && nftMutators[k] ||
		(strings.HasPrefix(k, "ext.") && !strings.Contains(k, ".Get") && !strings.Contains(k, ".Has") && !strings.Contains(k, ".Iterate") && !strings.Contains(k, ".SpendableCoins") && !strings.Contains(k, ".Authorized") && !strings.Contains(k, ".SupportedKey") && !strings.Contains(k, ".ChainID") && !strings.Contains(k, ".EstimateGas") && !strings.Contains(k, ".NewAccountWithAddress"))
}

func numericParamType(t types.Type) bool {
	return typeIs(t, "cosmossdk.io/math", "Int") || typeIs(t, "cosmossdk.io/math", "LegacyDec") ||
		typeIs(t, "github.com/cosmos/cosmos-sdk/types", "Coin") || typeIs(t, "github.com/cosmos/cosmos-sdk/types", "Coins") ||
		typeIs(t, "github.com/cosmos/cosmos-sdk/types", "DecCoin") || typeIs(t, "cosmossdk.io/math", "Uint")
}

func runC16(cx *Ctx, r *Report) {
	r.Explanation = "F3/F2/F7/F5. (authority) every rpc whose declared signer is the field `authority` holds the dominating fact keeper.authority == msg.Authority at each of its state-mutating events, on every call chain. (validated-writer) every Set on a params key in consensus code is dominated, in its own function, by Validate() == nil on the very value that is marshalled, so UpdateParams, InitGenesis and migrations all pass through validation. (coverage) for each Params struct and the structs nested in it, every field of a nil-able/signed numeric type (math.Int, LegacyDec, sdk.Coin, sdk.Coins) that consensus code reads outside the validation closure must also be read inside the closure of Validate. (division) every quotient in consensus code whose denominator derives from a params getter is dominated by a non-zero/positivity guard or carries a reviewed obligation whose named guards are re-checked. (coin validity) the validation behind every keeper SetParams establishes, on each accepting path, the validity of every coin-typed parameter (IsValid / Validate / ValidateDenom, directly or through the per-field validator): the fee handlers build coins from the stored denom with panicking constructors. Decides presence and placement of the checks, not that the validated ranges suffice for all arithmetic."
	r.Assumptions = []string{"the SDK verifies that the signer field of MsgUpdateParams signed the transaction", "the x/gov module account address is what the application passes as authority"}
	cx.coinParamsValidated(r)
	// ---------------- (1) authority
	var authEntries []Entry
	for _, e := range cx.EntriesOf("msg") {
		ee := e
		_, s := cx.signerTermsOf(&ee)
		if len(s) == 1 && s[0] == "msg.Authority" {
			authEntries = append(authEntries, e)
		}
	}
	mutCount := map[string]int{}
	over := cx.forEachEvent(authEntries, nil, func(e *Entry, w *Walker, ev *Event) {
		if !isMutatingKind(ev.Kind) {
			return
		}
		facts := w.FactsAt(ev.Fr, ev.Site)
		f, ok := hasFact(facts, false, "!=", ".authority", "msg.Authority")
		if !ok {
			f, ok = hasFact(facts, true, "==", ".authority", "msg.Authority")
		}
		mutCount[entryKey(e)]++
		r.check(ok, "authority-guard", e.Module+"."+e.Name+"|"+ev.Kind+"|"+strings.Join(ev.Prefix, ","), ev.Pos(cx),
			"authority comparison holds before "+ev.Kind+" ("+f.String()+")",
			"state mutation "+ev.Kind+" reachable in a governance-signed handler without the authority comparison on chain "+ev.Fr.String())
	})
	for _, o := range over {
		r.toolErr("frame budget exceeded for %s", o)
	}
	for _, e := range authEntries {
		ee := e
		if mutCount[entryKey(&ee)] == 0 {
			r.toolErr("governance handler %s reaches no state mutation (expected at least the params write)", entryKey(&ee))
		}
	}
	if len(authEntries) < 5 {
		r.toolErr("only %d authority-signed rpcs found (5 UpdateParams + token ERC20 governance handlers confirmed)", len(authEntries))
	}
	// ---------------- (2) validated writer
	for _, f := range cx.P.AllFuncs {
		if !isConsensusCode(cx, f) {
			continue
		}
		for _, p := range cx.primsOf(f) {
			if p.Kind != "store.set" && p.Kind != "store.delete" {
				continue
			}
			isP := false
			for _, px := range p.Prefix {
				if isParamsPrefix(px) {
					isP = true
				}
			}
			if !isP {
				continue
			}
			pos := cx.P.Pos(p.Site.Pos())
			key := p.Module + "|" + p.Kind + "|" + strings.Join(p.Prefix, ",")
			if p.Kind == "store.delete" {
				r.violate("validated-writer", key, pos, "params key deleted in "+shortFn(f))
				continue
			}
			// value marshalled
			val := storeArgs(p.Site)[1]
			marshalled := marshalSource(val)
			ok, why := cx.validatedAt(p.Site.Block(), marshalled, 0)
			r.check(ok, "validated-writer", key, pos, why+" in "+shortFn(f), "params key written in "+shortFn(f)+" without a dominating Validate() == nil on the stored value")
		}
	}
	// ---------------- (3) coverage
	cx.paramCoverage(r)
	// ---------------- (4) params-derived denominators
	cx.paramDivisions(r)
	cx.paramSubtractions(r)
	// ---------------- (5) constant indexing into a params-derived slice
	cx.paramIndexing(r)
	// ---------------- (6) fee − tax cannot go negative
	cx.feeTaxBounded(r)
	// ---------------- (7) a failed parameter lookup is not used as if it had succeeded
	cx.paramLookupErrors(r)
	cx.paramNarrowing(r, "param-amount-not-narrowed")
	// ---------------- (7b) no constant index into a stored list on a block-handler path (shared with C13)
	cx.recordListIndexRule(r, "abort-class-index")
	// ---------------- (8) parameter getters hand out what is stored
	cx.paramGettersVerbatim(r, []string{"coinswap", "farm", "htlc", "service", "token"}, "param-getter-verbatim")
	r.requireCount("authority-guard", 5)
	r.requireCount("validated-writer", 5)
	cx.rateBounds(r)
	cx.authorityWiring(r)
	r.requireCount("authority-wiring", 5)
	r.requireCount("rate-bounds", 8)
	r.requireCount("coverage", 10)
}

// marshalSource: x in `bz, _ := cdc.Marshal(&x)` / MustMarshal(&x) for the stored bz.
func marshalSource(v ssa.Value) ssa.Value {
	switch x := v.(type) {
	case *ssa.Extract:
		return marshalSource(x.Tuple)
	case *ssa.Call:
		_, name := calleeName(x.Common())
		if strings.HasSuffix(name, "Marshal") || strings.HasSuffix(name, "MustMarshal") {
			args := x.Common().Args
			if len(args) > 0 {
				a := args[len(args)-1]
				if mi, ok := a.(*ssa.MakeInterface); ok {
					a = mi.X
				}
				return a
			}
		}
	}
	return nil
}

// validatedAt: Validate() == nil on the very value v dominates block b; when v is
// a parameter of b's function (a write helper split off the validating setter),
// the same must hold for the bound argument at every call site.
func (cx *Ctx) validatedAt(b *ssa.BasicBlock, v ssa.Value, depth int) (bool, string) {
	if v == nil || depth > 3 {
		return false, ""
	}
	for _, cf := range callFacts(b) {
		_, name := calleeName(cf.Call.Common())
		if strings.HasSuffix(name, "Params.Validate") && cf.Outcome == "err==nil" {
			recv := cf.Call.Common().Args
			var rv ssa.Value
			if cf.Call.Common().IsInvoke() {
				rv = cf.Call.Common().Value
			} else if len(recv) > 0 {
				rv = recv[0]
			}
			if rv != nil && sameValue(stripAddr(v), stripAddr(rv)) {
				return true, "Validate() == nil on the marshalled value dominates the Set"
			}
		}
	}
	par, isPar := stripAddr(v).(*ssa.Parameter)
	if !isPar {
		// a parameter spilled to a local because its address is taken (Marshal(&params))
		if a, ok := stripAddr(v).(*ssa.Alloc); ok && a.Referrers() != nil {
			n := 0
			for _, rf := range *a.Referrers() {
				if st, ok := rf.(*ssa.Store); ok && st.Addr == a {
					n++
					par, isPar = st.Val.(*ssa.Parameter)
				}
			}
			if n != 1 {
				isPar = false
			}
		}
	}
	if !isPar {
		return false, ""
	}
	fn := par.Parent()
	idx := -1
	for i, q := range fn.Params {
		if q == par {
			idx = i
		}
	}
	callers := cx.CallersOf(fn)
	if len(callers) == 0 || idx < 0 {
		return false, ""
	}
	for _, cs := range callers {
		cc := cs.Site.Common()
		if cc.IsInvoke() || cc.StaticCallee() != fn || idx >= len(cc.Args) {
			return false, ""
		}
		if ok, _ := cx.validatedAt(cs.Site.Block(), cc.Args[idx], depth+1); !ok {
			return false, ""
		}
	}
	return true, fmt.Sprintf("Validate() == nil on the argument dominates each of the %d call sites of the write helper", len(callers))
}

// stripAddr: &local → the local's pure expression root.
func stripAddr(v ssa.Value) ssa.Value {
	if u, ok := v.(*ssa.UnOp); ok && u.Op.String() == "*" {
		return u.X
	}
	return v
}

// paramCoverage implements F7.
func (cx *Ctx) paramCoverage(r *Report) {
	for _, pk := range cx.P.Pkgs {
		if pkgRole(pk.PkgPath) != RoleConsensus {
			continue
		}
		tn, ok := pk.Types.Scope().Lookup("Params").(*types.TypeName)
		if !ok {
			continue
		}
		named, ok := tn.Type().(*types.Named)
		if !ok {
			continue
		}
		if _, ok := named.Underlying().(*types.Struct); !ok {
			continue
		}
		mod := moduleOf(pk.PkgPath)
		// Validate method
		var validate *ssa.Function
		for _, t := range []types.Type{named, types.NewPointer(named)} {
			ms := cx.P.SSA.MethodSets.MethodSet(t)
			if sel := ms.Lookup(tn.Pkg(), "Validate"); sel != nil {
				validate = cx.P.SSA.FuncValue(sel.Obj().(*types.Func))
			}
		}
		if validate == nil {
			// a Params type that is never stored (legacy wire type kept for queries) needs no validation
			stored := false
			for _, f := range cx.P.AllFuncs {
				if !isConsensusCode(cx, f) {
					continue
				}
				for _, p := range cx.primsOf(f) {
					if p.Kind == "store.set" && len(p.Prefix) > 0 && isParamsPrefix(p.Prefix[0]) {
						if ms := marshalSource(storeArgs(p.Site)[1]); ms != nil && namedOf(ms.Type()) == named {
							stored = true
						}
					}
				}
			}
			if stored {
				r.violate("coverage", mod+"|Params.Validate", cx.P.Pos(tn.Pos()), "stored Params type without a Validate method")
			}
			continue
		}
		// struct closure: Params + nested struct types from the same package
		structs := map[*types.Named]bool{named: true}
		var addNested func(n *types.Named)
		addNested = func(n *types.Named) {
			st := n.Underlying().(*types.Struct)
			for i := 0; i < st.NumFields(); i++ {
				ft := st.Field(i).Type()
				for {
					switch u := ft.(type) {
					case *types.Slice:
						ft = u.Elem()
						continue
					case *types.Pointer:
						ft = u.Elem()
						continue
					}
					break
				}
				if fn, ok := ft.(*types.Named); ok && fn.Obj().Pkg() == tn.Pkg() {
					if _, isSt := fn.Underlying().(*types.Struct); isSt && !structs[fn] {
						structs[fn] = true
						addNested(fn)
					}
				}
			}
		}
		addNested(named)
		valReach := cx.Reachable([]*ssa.Function{validate}, nil)
		readIn := func(fns []*ssa.Function) map[string]string {
			out := map[string]string{}
			for _, f := range fns {
				if f.Blocks == nil {
					continue
				}
				for _, b := range f.Blocks {
					for _, ins := range b.Instrs {
						var xt types.Type
						var idx int
						switch x := ins.(type) {
						case *ssa.FieldAddr:
							xt, idx = x.X.Type(), x.Field
						case *ssa.Field:
							xt, idx = x.X.Type(), x.Field
						default:
							continue
						}
						n := namedOf(xt)
						if n == nil || !structs[n] {
							continue
						}
						// a FieldAddr that is only stored to is a write, not a read
						if fa, ok := ins.(*ssa.FieldAddr); ok {
							onlyStore := true
							for _, ref := range *fa.Referrers() {
								if st, ok := ref.(*ssa.Store); !ok || st.Addr != fa {
									onlyStore = false
								}
							}
							if onlyStore && len(*fa.Referrers()) > 0 {
								continue
							}
						}
						k := n.Obj().Name() + "." + fieldNameShort(xt, idx)
						if _, ok := out[k]; !ok {
							out[k] = cx.P.Pos(ins.Pos()) + " in " + shortFn(f)
						}
					}
				}
			}
			return out
		}
		validated := readIn(valReach.Order)
		// consumers: consensus functions of the same module outside the validation closure,
		// outside generated code and outside pure accessors of the types package
		var consumers []*ssa.Function
		for _, f := range cx.P.AllFuncs {
			if !isConsensusCode(cx, f) || moduleOf(funcPkgPath(f)) != mod || valReach.Has(f) {
				continue
			}
			if pkgRole(funcPkgPath(f)) == RoleUpgrade {
				continue
			}
			name := f.Name()
			if f.Signature.Recv() != nil && namedOf(f.Signature.Recv().Type()) != nil && structs[namedOf(f.Signature.Recv().Type())] {
				// methods of the params types themselves: String, Equal, ParamSetPairs … are not consumers
				if name == "String" || name == "Equal" || name == "ParamSetPairs" || strings.HasPrefix(name, "Get") {
					continue
				}
			}
			consumers = append(consumers, f)
		}
		consumed := readIn(consumers)
		var names []string
		for n := range structs {
			st := n.Underlying().(*types.Struct)
			for i := 0; i < st.NumFields(); i++ {
				if numericParamType(st.Field(i).Type()) {
					names = append(names, n.Obj().Name()+"."+st.Field(i).Name())
				}
			}
		}
		sort.Strings(names)
		for _, fq := range names {
			where, used := consumed[fq]
			_, val := validated[fq]
			key := mod + "." + fq
			switch {
			case val:
				r.ok("coverage", key, validated[fq], "numeric params field "+fq+" is read inside the closure of Validate ("+validated[fq]+")")
			case !used:
				r.ok("coverage", key, cx.P.Pos(tn.Pos()), "numeric params field "+fq+" is not consumed by consensus code of module "+mod)
			default:
				r.violate("coverage", key, where, fmt.Sprintf("numeric params field %s is consumed by consensus code (%s) but never read by %s: any value, including negative or nil, passes validation", fq, where, shortFn(validate)))
			}
		}
	}
}

// paramDivisions: quotients whose denominator derives from a params getter.
func (cx *Ctx) paramDivisions(r *Report) {
	type site struct {
		f    *ssa.Function
		call *ssa.Call
		den  ssa.Value
		name string
	}
	var sites []site
	for _, f := range cx.P.AllFuncs {
		if !isConsensusCode(cx, f) || pkgRole(funcPkgPath(f)) == RoleUpgrade {
			continue
		}
		for _, b := range f.Blocks {
			for _, ins := range b.Instrs {
				c, ok := ins.(*ssa.Call)
				if !ok || c.Common().IsInvoke() {
					continue
				}
				pkg, name := calleeName(c.Common())
				if !(pkg == "cosmossdk.io/math" || pkg == "math/big") {
					continue
				}
				m := name[strings.LastIndex(name, ".")+1:]
				isDiv := strings.HasPrefix(m, "Quo") || m == "Div" || m == "Mod" || m == "Rem" || m == "DivMod" || m == "QuoRem"
				if !isDiv {
					continue
				}
				args := c.Common().Args
				if len(args) < 2 {
					continue
				}
				den := args[len(args)-1]
				if pkg == "math/big" && len(args) >= 3 {
					den = args[2]
				}
				sites = append(sites, site{f, c, den, pkg[strings.LastIndex(pkg, "/")+1:] + "." + name})
			}
		}
	}
	n := 0
	for _, s := range sites {
		// denominator derives from a params read?
		isParamsRead := func(v ssa.Value) bool {
			c, ok := v.(*ssa.Call)
			if !ok {
				return false
			}
			for _, e := range cx.calleesOf(c) {
				if e.Callee.Blocks == nil {
					continue
				}
				for _, pp := range cx.primsOf(e.Callee) {
					if pp.Kind == "store.get" {
						for _, px := range pp.Prefix {
							if isParamsPrefix(px) {
								return true
							}
						}
					}
				}
			}
			return false
		}
		if !cx.derivesInterproc(s.den, s.f, isParamsRead, 0, map[ssa.Value]bool{}) {
			continue
		}
		n++
		pos := cx.P.Pos(s.call.Pos())
		mod := moduleOf(funcPkgPath(s.f))
		key := mod + "|" + s.name + "|" + anchorOf(cx, s.f)
		// guard on the denominator itself
		if g := denominatorGuard(s.call, s.den); g != "" {
			r.ok("params-division", key, pos, "denominator guarded: "+g)
			continue
		}
		// reviewed obligations (DESIGN §4.C16): coinswap price functions multiply (1 − Fee) into the
		// denominator; non-zero because Validate bounds Fee < 1 and callers hold positive reserves.
		if mod == "coinswap" {
			ok1 := cx.validateBoundsFee(r)
			ok2 := cx.callersHoldPositiveReserves(s.f)
			// the denominators are what the obligation says they are: the price functions
			// equal the reference closed forms (C01's formula rules, re-run here)
			if cx.c01Clean == nil {
				sub := newReport("C01", r.Tier)
				func() {
					defer func() {
						if e := recover(); e != nil {
							sub.toolErr("C01 formula rules panicked: %v", e)
						}
					}()
					runC01(cx, sub)
				}()
				clean := len(sub.ToolErrs) == 0
				for _, v := range sub.Viols {
					// the price functions and their reserve guards; liquidity formulas have their own rule
					if v.Rule == "price-formula" || (v.Rule == "reserve-guard" && strings.Contains(v.Key, "|SwapCoin")) {
						clean = false
					}
				}
				cx.c01Clean = &clean
			}
			ok3 := *cx.c01Clean
			r.check(ok1 && ok2 && ok3, "params-division", key, pos,
				"reviewed obligation: denominator (reserve·10^18 + amount·(1−fee)·10^18) or ((reserve_out − amount)·(1−fee)·10^18), established by the formula rules; Fee < 1 is enforced by Params.Validate and every caller holds the positive-reserve guards",
				"reviewed obligation for the coinswap price denominator no longer holds (Fee<1 in Validate: "+fmt.Sprint(ok1)+"; positive-reserve guards at callers: "+fmt.Sprint(ok2)+"; price functions equal the reference closed forms with the fee at full precision: "+fmt.Sprint(ok3)+"): an accepted fee can make the denominator zero and the swap handler panic")
			continue
		}
		r.violate("params-division", key, pos, "quotient "+s.name+" in "+shortFn(s.f)+" has a denominator derived from module parameters without a dominating non-zero guard or reviewed obligation")
	}
	r.Extra["division_sites_total"] = len(sites)
	r.Extra["division_sites_params_derived"] = n
}

// derivesInterproc: backward slice of v, call-string sensitive: descending into
// a callee's returns remembers the call site, so the callee's parameters bind to
// that site's arguments only; parameters of the outermost function bind to the
// arguments of every irismod caller.
func (cx *Ctx) derivesInterproc(v ssa.Value, f *ssa.Function, pred func(ssa.Value) bool, depth int, seen map[ssa.Value]bool) bool {
	type key struct {
		v   ssa.Value
		top *ssa.Call
	}
	visited := map[key]bool{}
	var walk func(v ssa.Value, stack []*ssa.Call, depth int) bool
	walk = func(v ssa.Value, stack []*ssa.Call, depth int) bool {
		if v == nil || depth > 60 {
			return false
		}
		var top *ssa.Call
		if len(stack) > 0 {
			top = stack[len(stack)-1]
		}
		k := key{v, top}
		if visited[k] {
			return false
		}
		visited[k] = true
		if pred(v) {
			return true
		}
		switch x := v.(type) {
		case *ssa.Parameter:
			fn := x.Parent()
			idx := -1
			for i, p := range fn.Params {
				if p == x {
					idx = i
				}
			}
			if top != nil {
				args := top.Common().Args
				if idx >= 0 && idx < len(args) {
					return walk(args[idx], stack[:len(stack)-1], depth+1)
				}
				return false
			}
			for _, cs := range cx.CallersOf(fn) {
				args := cs.Site.Common().Args
				j := idx
				if cs.Site.Common().IsInvoke() {
					j--
				}
				if j >= 0 && j < len(args) && walk(args[j], nil, depth+1) {
					return true
				}
			}
			return false
		case *ssa.Const, *ssa.Global, *ssa.FreeVar, *ssa.Function, *ssa.Builtin:
			return false
		case *ssa.UnOp:
			if x.Op.String() == "*" {
				if base := allocBase(x.X); base != nil {
					for _, r := range *base.Referrers() {
						if st, ok := r.(*ssa.Store); ok && walk(st.Val, stack, depth+1) {
							return true
						}
					}
				}
			}
		case *ssa.Call:
			if g := x.Common().StaticCallee(); g != nil && g.Blocks != nil && isIrismodFunc(g) && len(stack) < 8 {
				onStack := false
				for _, c := range stack {
					if c == x {
						onStack = true
					}
				}
				if !onStack {
					ns := append(append([]*ssa.Call{}, stack...), x)
					for _, ret := range returnsOf(g) {
						for _, res := range ret.Results {
							if walk(res, ns, depth+1) {
								return true
							}
						}
					}
					return false
				}
			}
		}
		if ins, ok := v.(ssa.Instruction); ok {
			for _, op := range ins.Operands(nil) {
				if op != nil && *op != nil && walk(*op, stack, depth+1) {
					return true
				}
			}
		}
		return false
	}
	return walk(v, nil, depth)
}

// denominatorGuard: the call is dominated by a test on the denominator itself
// (IsZero / IsPositive / GT / Sign) whose failing edge leaves the function.
func denominatorGuard(call *ssa.Call, den ssa.Value) string {
	for _, cf := range callFacts(call.Block()) {
		_, name := calleeName(cf.Call.Common())
		m := name[strings.LastIndex(name, ".")+1:]
		args := cf.Call.Common().Args
		if len(args) == 0 || !sameValue(args[0], den) {
			continue
		}
		switch {
		case m == "IsZero" && cf.Outcome == "false", m == "IsPositive" && cf.Outcome == "true", m == "IsNil" && cf.Outcome == "false":
			return name + " : " + cf.Outcome
		}
	}
	if c, ok := den.(*ssa.Const); ok && c.Value != nil && c.Value.ExactString() != "0" {
		return "non-zero constant " + c.Value.ExactString()
	}
	return ""
}

// validateBoundsFee: coinswap Params.Validate reaches a comparison of the fee with one (LT/GTE One).
func (cx *Ctx) validateBoundsFee(r *Report) bool {
	pk := cx.P.ByPath[modPrefix+"modules/coinswap/types"]
	if pk == nil {
		return false
	}
	tn, _ := pk.Types.Scope().Lookup("Params").(*types.TypeName)
	if tn == nil {
		return false
	}
	sel := cx.P.SSA.MethodSets.MethodSet(tn.Type()).Lookup(tn.Pkg(), "Validate")
	if sel == nil {
		return false
	}
	v := cx.P.SSA.FuncValue(sel.Obj().(*types.Func))
	// every success exit of Validate holds the fact Fee < 1 (directly or through a
	// validator helper that returned nil)
	// (.Fee#0: the field seen through a checked type assertion, v, ok := i.(LegacyDec))
	return cx.acceptsOnlyWhen(v, true, "LegacyDec.LT(", ".Fee, math.LegacyOneDec())") ||
		cx.acceptsOnlyWhen(v, true, "LegacyDec.LT(", ".Fee#0, math.LegacyOneDec())")
}

// acceptsOnlyWhen: every success exit of fn is dominated by a fact (possibly
// implied by a helper call that succeeded) with the given polarity whose text
// contains all substrings.
func (cx *Ctx) acceptsOnlyWhen(fn *ssa.Function, holds bool, subs ...string) bool {
	w := newWalker(cx)
	fr := &Frame{Fn: fn}
	exits := successExitBlocks(fn)
	if len(exits) == 0 {
		return false
	}
	for _, b := range exits {
		ok := false
		for _, ft := range w.exitFacts(fr, b, 0) {
			if ft.Holds != holds {
				continue
			}
			all := true
			for _, s := range subs {
				if !strings.Contains(ft.Text, s) {
					all = false
				}
			}
			if all {
				ok = true
			}
		}
		if !ok {
			return false
		}
	}
	return true
}

// rejectsWhen: walking every chain from fn, some failure exit holds a dominating
// fact with the given polarity whose text contains all substrings.
func (cx *Ctx) rejectsWhen(fn *ssa.Function, holds bool, subs ...string) bool {
	w := newWalker(cx)
	found := false
	w.Walk(fn, func(fr *Frame) {
		if found || fr.Fn.Blocks == nil {
			return
		}
		for _, b := range fr.Fn.Blocks {
			last := b.Instrs[len(b.Instrs)-1]
			isFail := false
			if ret, ok := last.(*ssa.Return); ok && isFailureReturn(ret) {
				isFail = true
			}
			if _, ok := last.(*ssa.Panic); ok {
				isFail = true
			}
			if !isFail {
				continue
			}
			// the failure must propagate: every frame above returns the error (validators do)
			for _, ft := range w.blockFacts(fr, b, 0) {
				if ft.Holds != holds {
					continue
				}
				all := true
				for _, s := range subs {
					if !strings.Contains(ft.Text, s) {
						all = false
					}
				}
				if all {
					found = true
				}
			}
		}
	})
	return found
}

// callersHoldPositiveReserves: every consensus caller of the price function tests
// IsPositive on values before the call (the reserve guards) with a failing edge.
func (cx *Ctx) callersHoldPositiveReserves(f *ssa.Function) bool {
	cs := cx.CallersOf(f)
	if len(cs) == 0 {
		return false
	}
	for _, c := range cs {
		if c.Caller.Pos().IsValid() && strings.Contains(cx.P.File(c.Caller.Pos()), "grpc_query") {
			continue
		}
		n := 0
		for _, cf := range callFacts(c.Site.Block()) {
			_, name := calleeName(cf.Call.Common())
			if name == "Int.IsPositive" && cf.Outcome == "true" {
				n++
			}
		}
		if n < 2 {
			return false
		}
	}
	return true
}

// decBounds: for every LegacyDec field of a stored Params struct, the facts about
// that very field that hold at every success exit of Validate.
func (cx *Ctx) decBoundFacts() map[string][]FactT {
	out := map[string][]FactT{}
	for _, pk := range cx.P.Pkgs {
		if !strings.HasPrefix(pk.PkgPath, modPrefix+"modules/") || pk.Types == nil {
			continue
		}
		tn, _ := pk.Types.Scope().Lookup("Params").(*types.TypeName)
		if tn == nil {
			continue
		}
		named, _ := tn.Type().(*types.Named)
		if named == nil {
			continue
		}
		st, ok := named.Underlying().(*types.Struct)
		if !ok {
			continue
		}
		var validate *ssa.Function
		for _, t := range []types.Type{named, types.NewPointer(named)} {
			if sel := cx.P.SSA.MethodSets.MethodSet(t).Lookup(tn.Pkg(), "Validate"); sel != nil {
				validate = cx.P.SSA.FuncValue(sel.Obj().(*types.Func))
			}
		}
		if validate == nil || validate.Blocks == nil {
			continue
		}
		w := newWalker(cx)
		fr := &Frame{Fn: validate}
		exits := successExitBlocks(validate)
		for i := 0; i < st.NumFields(); i++ {
			if !typeIs(st.Field(i).Type(), "cosmossdk.io/math", "LegacyDec") {
				continue
			}
			fq := shortPkg(pk.PkgPath) + ".Params." + st.Field(i).Name()
			var common map[string]FactT
			for _, b := range exits {
				cur := map[string]FactT{}
				for _, ft := range w.exitFacts(fr, b, 0) {
					if strings.Contains(ft.Text, "."+st.Field(i).Name()) {
						cur[ft.String()] = ft
					}
				}
				if common == nil {
					common = cur
				} else {
					for k := range common {
						if _, ok := cur[k]; !ok {
							delete(common, k)
						}
					}
				}
			}
			var fs []FactT
			for _, k := range sortedKeys(common) {
				fs = append(fs, common[k])
			}
			out[fq] = fs
		}
	}
	return out
}

// rateBounds: every decimal (rate) parameter is accepted only inside [0, 1]:
// at every success exit of Validate a comparison of that very field with zero
// (lower) and with one (upper) has been decided in the accepting direction.
func (cx *Ctx) rateBounds(r *Report) {
	m := cx.decBoundFacts()
	re := regexp.MustCompile(`^math\.LegacyDec\.(GT|GTE|LT|LTE)\(‹Params›\.(\w+)(#0)?, (math\.LegacyZeroDec\(\)|math\.LegacyOneDec\(\)|math\.LegacyNewDec\((0|1)\))\)$`)
	reSign := regexp.MustCompile(`^math\.LegacyDec\.(IsNegative|IsPositive)\(‹Params›\.(\w+)(#0)?\)$`)
	for _, fq := range sortedKeys(m) {
		field := fq[strings.LastIndex(fq, ".")+1:]
		lower, upper := "", ""
		for _, ft := range m[fq] {
			if sm := reSign.FindStringSubmatch(ft.Text); sm != nil && sm[2] == field {
				// canonical sign tests: x.LT(0) is IsNegative(x), x.GT(0) is IsPositive(x)
				if sm[1] == "IsNegative" && !ft.Holds || sm[1] == "IsPositive" && ft.Holds {
					lower = ft.String()
				}
				continue
			}
			mm := re.FindStringSubmatch(ft.Text)
			if mm == nil || mm[2] != field {
				continue
			}
			zero := strings.Contains(mm[4], "Zero") || mm[5] == "0"
			op := mm[1]
			switch {
			case zero && ((op == "GT" || op == "GTE") && ft.Holds || (op == "LT" || op == "LTE") && !ft.Holds):
				lower = ft.String()
			case !zero && ((op == "LT" || op == "LTE") && ft.Holds || (op == "GT" || op == "GTE") && !ft.Holds):
				upper = ft.String()
			}
		}
		mod := fq[:strings.Index(fq, "/")]
		r.check(lower != "" && upper != "", "rate-bounds", mod+"."+fq[strings.Index(fq, "Params."):], "", "accepted only with "+lower+" and "+upper, fmt.Sprintf("decimal parameter %s is accepted by Validate without a decided bound on the field itself {lower bound vs 0: %q, upper bound vs 1: %q}: a rate outside [0,1] makes the handlers that multiply and subtract it abort or mint", fq, lower, upper))
	}
}

func init() {
	dumps["decbounds"] = func(cx *Ctx) {
		m := cx.decBoundFacts()
		for _, k := range sortedKeys(m) {
			fmt.Println(k)
			for _, f := range m[k] {
				fmt.Println("    ", f.String())
			}
		}
	}
}

// authorityWiring: wherever a module's ProvideModule reads Config.Authority, the
// value handed on (to the keeper constructor) must derive from it on the
// non-empty branch: `authority := gov; if cfg.Authority != "" { authority = parse(cfg.Authority) }`.
// A shadowed assignment (`authority := …` inside the if) silently drops the
// configured authority and leaves governance in control.
func (cx *Ctx) authorityWiring(r *Report) {
	n := 0
	for _, f := range cx.P.AllFuncs {
		if f.Name() != "ProvideModule" || !isIrismodFunc(f) || f.Blocks == nil {
			continue
		}
		// loads of the field Authority of a module config
		var cfgLoads []ssa.Value
		for _, b := range f.Blocks {
			for _, ins := range b.Instrs {
				switch x := ins.(type) {
				case *ssa.FieldAddr:
					if fieldNameShort(x.X.Type(), x.Field) == "Authority" {
						for _, ref := range *x.Referrers() {
							if u, ok := ref.(*ssa.UnOp); ok && u.Op == token.MUL {
								cfgLoads = append(cfgLoads, u)
							}
						}
					}
				case *ssa.Field:
					if fieldNameShort(x.X.Type(), x.Field) == "Authority" {
						cfgLoads = append(cfgLoads, x)
					}
				}
			}
		}
		if len(cfgLoads) == 0 {
			continue
		}
		n++
		src := map[ssa.Value]bool{}
		for _, v := range cfgLoads {
			src[v] = true
		}
		// some call to an irismod function (the keeper constructor) receives a value derived from it
		wired := false
		for _, ci := range findCalls(f, func(ci ssa.CallInstruction) bool {
			g := ci.Common().StaticCallee()
			return g != nil && isIrismodFunc(g) && strings.HasPrefix(g.Name(), "NewKeeper")
		}) {
			for _, a := range ci.Common().Args {
				if derivesFrom(a, src, 0, map[ssa.Value]bool{}) {
					wired = true
				}
			}
		}
		mod := moduleOf(funcPkgPath(f))
		r.check(wired, "authority-wiring", mod+".ProvideModule", cx.P.Pos(f.Pos()), "the authority handed to the keeper derives from Config.Authority when one is configured", "ProvideModule of "+mod+" reads Config.Authority but the value never reaches the keeper constructor (shadowed or dropped assignment): a configured authority is ignored and the default (governance) stays in control of the parameters")
	}
	if n < 5 {
		r.toolErr("only %d ProvideModule functions read Config.Authority (≥5 confirmed)", n)
	}
}

// paramIndexing: x[c] with a constant index, where the slice x derives from a params
// read (k.GetParams(ctx).MinDeposit[0]), aborts for an empty list. Validation accepts
// empty sdk.Coins for a coins-typed parameter, so each such site needs a dominating
// length / emptiness test on that very slice.
func (cx *Ctx) paramIndexing(r *Report) {
	isParamsRead := func(v ssa.Value) bool {
		c, ok := v.(*ssa.Call)
		if !ok {
			return false
		}
		for _, e := range cx.calleesOf(c) {
			if e.Callee.Blocks == nil {
				continue
			}
			for _, pp := range cx.primsOf(e.Callee) {
				if pp.Kind == "store.get" {
					for _, px := range pp.Prefix {
						if isParamsPrefix(px) {
							return true
						}
					}
				}
			}
		}
		return false
	}
	n := 0
	for _, f := range cx.P.AllFuncs {
		if !isConsensusCode(cx, f) || pkgRole(funcPkgPath(f)) == RoleUpgrade || f.Blocks == nil {
			continue
		}
		if strings.Contains(f.Name(), "Validate") || strings.HasPrefix(f.Name(), "validate") {
			continue
		}
		for _, b := range f.Blocks {
			for _, ins := range b.Instrs {
				var x, idx ssa.Value
				switch y := ins.(type) {
				case *ssa.IndexAddr:
					x, idx = y.X, y.Index
				case *ssa.Index:
					x, idx = y.X, y.Index
				default:
					continue
				}
				if _, isSlice := x.Type().Underlying().(*types.Slice); !isSlice {
					continue
				}
				c, isConst := idx.(*ssa.Const)
				if !isConst || c.Value == nil {
					continue
				}
				// the slice value itself (not an element of a loop over it)
				if !cx.derivesInterproc(x, f, isParamsRead, 0, map[ssa.Value]bool{}) {
					continue
				}
				// only direct projections of the params record: GetParams(..).Field, or a value
				// handed down from one
				if !strings.Contains(pureExprDeep(x), "Params") && !derivesOnlyFromParam(x) {
					continue
				}
				n++
				guard := ""
				xs := pureExpr(x, 0)
				for _, df := range dominatingFacts(b) {
					cs := pureExpr(df.Cond, 0)
					if xs != "" && cs != "" && strings.Contains(cs, xs) && (strings.Contains(cs, "len(") || strings.Contains(cs, "Empty") || strings.Contains(cs, "IsZero") || strings.Contains(cs, "Len(")) {
						guard = cs
					}
				}
				pos := cx.P.Pos(ins.Pos())
				mod := moduleOf(funcPkgPath(f))
				key := mod + "|" + shortFn(f) + "|" + c.Value.ExactString()
				r.check(guard != "", "params-index", key, pos, "constant index into a params-derived list under the length test "+guard, "constant index ["+c.Value.ExactString()+"] into a list read from the module parameters in "+shortFn(f)+" without a dominating length test: a parameter set with an empty list passes validation (empty sdk.Coins is valid) and this handler then aborts")
			}
		}
	}
	r.Extra["params_index_sites"] = n
}

func pureExprDeep(v ssa.Value) string {
	s := pureExpr(v, 0)
	if s != "" {
		return s
	}
	if ins, ok := v.(ssa.Instruction); ok {
		var parts []string
		for _, op := range ins.Operands(nil) {
			if op != nil && *op != nil {
				parts = append(parts, pureExpr(*op, 0))
			}
		}
		return strings.Join(parts, ",")
	}
	return ""
}

func derivesOnlyFromParam(v ssa.Value) bool {
	for i := 0; i < 6; i++ {
		switch x := v.(type) {
		case *ssa.Parameter:
			return true
		case *ssa.UnOp:
			v = x.X
		case *ssa.FieldAddr:
			v = x.X
		case *ssa.Field:
			v = x.X
		case *ssa.Extract:
			v = x.Tuple
		case *ssa.Call:
			return true
		case *ssa.Alloc:
			return true
		default:
			return false
		}
	}
	return false
}

// feeTaxBounded: where a fee is split as tax + burn(fee − tax), Coin.Sub aborts the
// handler if tax > fee. The tax is therefore exactly ⌊fee.Amount · rate⌋ for a rate
// parameter (validated into [0,1]) - no floor, minimum or alternative value that the
// fee does not bound. Under an accepted fee of 0 (farm accepts it) a "minimum tax of
// one unit" makes every pool creation panic.
func (cx *Ctx) feeTaxBounded(r *Report) {
	n := 0
	seen := map[string]bool{}
	for _, m := range []string{"coinswap", "farm", "token"} {
		cx.forEachEvent(cx.entriesOfModule(m, "msg"), nil, func(e *Entry, w *Walker, ev *Event) {
			if ev.Kind != "bank.BurnCoins" {
				return
			}
			sub := findSub(ev.Args[len(ev.Args)-1], func(t *Term) bool {
				return t.Op == "call" && (t.Name == "sdk.Coin.Sub" || t.Name == "sdk.Coins.Sub") && len(t.Args) == 2
			})
			if sub == nil {
				return
			}
			pos := ev.Pos(cx)
			if seen[pos] {
				return
			}
			seen[pos] = true
			n++
			fee, tax := sub.Args[0], sub.Args[1]
			ts := tax.LooseString()
			amt := tax
			if tax.Op == "call" && (tax.Name == "coin" || tax.Name == "coins") && len(tax.Args) >= 1 {
				amt = tax.Args[len(tax.Args)-1]
				if amt.Op == "call" && amt.Name == "coin" && len(amt.Args) == 2 {
					amt = amt.Args[1]
				}
			}
			feeAmt := simplifyField(fee, "Amount").LooseString()
			if fee.Op == "call" && fee.Name == "coins" && len(fee.Args) == 1 {
				feeAmt = simplifyField(fee.Args[0], "Amount").LooseString()
			}
			// alternatives inside the fee itself (a fee computed on two branches) are the
			// fee's business; the tax must not choose between values on its own
			feeBase := fee
			if fee.Op == "call" && fee.Name == "coins" && len(fee.Args) == 1 {
				feeBase = fee.Args[0]
			}
			own := ts
			for _, sub := range []string{feeAmt, simplifyField(feeBase, "Denom").LooseString(), feeBase.LooseString()} {
				if sub != "" {
					own = strings.ReplaceAll(own, sub, "‹fee›")
				}
			}
			ok := amt.Op == "call" && strings.HasSuffix(amt.Name, "TruncateInt") && strings.Contains(amt.LooseString(), "Mul(") && strings.Contains(amt.LooseString(), feeAmt) && !strings.Contains(own, "φ{")
			r.check(ok, "fee-tax-bounded", m+"|"+shortFn(ev.Fr.Fn), pos, "the tax subtracted from the fee is ⌊fee·rate⌋ and nothing else ("+trunc(ts, 120)+")", "in "+shortFn(ev.Fr.Fn)+" the amount subtracted from the fee before burning is "+trunc(ts, 200)+", not simply ⌊fee·rate⌋: it can exceed the fee (a zero or tiny fee passes validation), and Coin.Sub then aborts the handler with a negative amount")
		})
	}
	if n < 3 {
		r.toolErr("only %d fee−tax burns found (coinswap, farm, token confirmed)", n)
	}
}

// paramLookupErrors: a lookup that reads the module's parameters and reports failure
// through an error result (an asset / a limit / a denom that the current parameter set
// no longer lists) returns the zero value of its record on failure, whose math.Int /
// LegacyDec / Coin fields are nil. A caller on a message, block or callback path that
// discards the error and goes on to use the record turns an accepted parameter change
// (an asset removed from the list) into a nil-amount panic in a handler.
func (cx *Ctx) paramLookupErrors(r *Report) {
	reach := cx.Reachable(cx.entryFns(cx.EntriesOf("msg", "abci", "callback", "hook", "ante")), nil)
	hasNilable := func(t types.Type) bool {
		var rec func(t types.Type, d int) bool
		rec = func(t types.Type, d int) bool {
			if d > 4 {
				return false
			}
			if numericParamType(t) {
				return true
			}
			switch u := t.Underlying().(type) {
			case *types.Struct:
				if namedOf(t) != nil && namedOf(t).Obj().Pkg() != nil && !strings.HasPrefix(namedOf(t).Obj().Pkg().Path(), modPrefix) {
					return false
				}
				for i := 0; i < u.NumFields(); i++ {
					if rec(u.Field(i).Type(), d+1) {
						return true
					}
				}
			case *types.Pointer:
				return rec(u.Elem(), d+1)
			}
			return false
		}
		return rec(t, 0)
	}
	readsParams := map[*ssa.Function]bool{}
	reads := func(g *ssa.Function) bool {
		if v, ok := readsParams[g]; ok {
			return v
		}
		res := false
		for _, h := range cx.Reachable([]*ssa.Function{g}, nil).Order {
			if h.Blocks == nil || !isIrismodFunc(h) {
				continue
			}
			for _, p := range cx.primsOf(h) {
				if p.Kind == "store.get" {
					for _, px := range p.Prefix {
						if isParamsPrefix(px) {
							res = true
						}
					}
				}
			}
		}
		readsParams[g] = res
		return res
	}
	n := 0
	for _, f := range reach.Order {
		if f.Blocks == nil || !isConsensusCode(cx, f) {
			continue
		}
		for _, b := range f.Blocks {
			for _, ins := range b.Instrs {
				c, ok := ins.(*ssa.Call)
				if !ok || c.Common().IsInvoke() {
					continue
				}
				g := c.Common().StaticCallee()
				if g == nil || g.Blocks == nil || !isIrismodFunc(g) || !lastResultIsError(g) {
					continue
				}
				res := g.Signature.Results()
				if res.Len() < 2 || !hasNilable(res.At(0).Type()) || !reads(g) {
					continue
				}
				n++
				errUsed, valUsed := false, false
				if c.Referrers() != nil {
					for _, ref := range *c.Referrers() {
						if ex, ok := ref.(*ssa.Extract); ok {
							used := ex.Referrers() != nil && len(*ex.Referrers()) > 0
							if ex.Index == res.Len()-1 && used {
								errUsed = true
							}
							if ex.Index == 0 && used {
								valUsed = true
							}
						}
					}
				}
				key := moduleOf(funcPkgPath(f)) + "|" + callNameOfFn(g) + "|" + anchorOf(cx, f)
				r.check(errUsed || !valUsed, "param-lookup-error-checked", key, cx.P.Pos(c.Pos()), "the error of the parameter lookup "+shortFn(g)+" is inspected where its result is used", "in "+shortFn(f)+" the error of "+shortFn(g)+" (a lookup in the module's parameters) is discarded and the returned record is used: when the current parameters no longer list the entry the record is the zero value with nil amounts, and the handler panics (amount is nil) instead of rejecting - reachable through an accepted parameter change; "+reach.Path(f))
			}
		}
	}
	if n < 3 {
		r.toolErr("only %d parameter lookups with an error result found on handler paths (≥3 confirmed: htlc GetAsset / GetSupplyLimit / …)", n)
	}
}

// paramGettersVerbatim: a keeper function that reads the module's parameters and returns
// (part of) them returns what is stored. A getter that edits the record on the way out
// ("when the two limits are equal the time limit is off") gives its callers another
// parameter set than the one that was validated and than the one other code reads
// directly from the params - two sites that must agree (the check at creation, the window
// reset in the begin blocker) then work from different settings.
func (cx *Ctx) paramGettersVerbatim(r *Report, mods []string, rule string) int {
	n := 0
	for _, G := range cx.P.AllFuncs {
		if G.Blocks == nil || !isIrismodFunc(G) || G.Parent() != nil || !isConsensusCode(cx, G) || !strings.Contains(funcPkgPath(G), "/keeper") {
			continue
		}
		m := moduleOf(funcPkgPath(G))
		if !contains(mods, m) || G.Signature.Results().Len() == 0 {
			continue
		}
		rt := G.Signature.Results().At(0).Type()
		if p, ok := rt.(*types.Pointer); ok {
			rt = p.Elem()
		}
		nt := namedOf(rt)
		if nt == nil || nt.Obj().Pkg() == nil || !strings.HasPrefix(nt.Obj().Pkg().Path(), modPrefix) || !strings.Contains(nt.Obj().Pkg().Path(), "/types") {
			continue
		}
		if _, isStruct := nt.Underlying().(*types.Struct); !isStruct {
			continue
		}
		// reads the params, and only reads
		readsParams, mutates := false, false
		for _, h := range cx.Reachable([]*ssa.Function{G}, nil).Order {
			if h.Blocks == nil || !isIrismodFunc(h) {
				continue
			}
			for _, p := range cx.primsOf(h) {
				if isMutatingKind(p.Kind) {
					mutates = true
				}
				if p.Kind == "store.get" {
					for _, px := range p.Prefix {
						if isParamsPrefix(px) {
							readsParams = true
						}
					}
				} else if strings.HasPrefix(p.Kind, "store.") {
					readsParams = readsParams || false
				}
			}
		}
		if !readsParams || mutates {
			continue
		}
		// the returned type must be part of the params record (Params itself or a type nested in it)
		if !cx.partOfParams(m, nt) {
			continue
		}
		n++
		var edits []string
		for _, b := range G.Blocks {
			for _, ins := range b.Instrs {
				st, ok := ins.(*ssa.Store)
				if !ok {
					continue
				}
				fa, ok := st.Addr.(*ssa.FieldAddr)
				if !ok {
					continue
				}
				if ft := namedOf(fa.X.Type()); ft != nil && ft.Obj().Pkg() != nil && strings.HasPrefix(ft.Obj().Pkg().Path(), modPrefix) && cx.partOfParams(m, ft) {
					// composite-literal construction of a fresh value is not an edit
					if base, isAlloc := fa.X.(*ssa.Alloc); isAlloc {
						whole := false
						for _, rf := range *base.Referrers() {
							if s2, ok := rf.(*ssa.Store); ok && s2.Addr == base {
								whole = true
							}
						}
						if !whole {
							continue
						}
					}
					edits = append(edits, ft.Obj().Name()+"."+fieldNameShort(fa.X.Type(), fa.Field)+" at "+cx.P.Pos(st.Pos()))
				}
			}
		}
		r.check(len(edits) == 0, rule, m+"|"+shortFn(G), cx.P.Pos(G.Pos()), shortFn(G)+" returns the stored "+nt.Obj().Name()+" unedited", shortFn(G)+" reads the module's parameters and edits the "+nt.Obj().Name()+" it returns ("+strings.Join(edits, ", ")+"): its callers work from another parameter set than the one stored and validated, and than code that reads the raw params - sites that must agree on a setting (a limit check and the reset of its window) no longer do")
	}
	return n
}

// partOfParams: the named struct type is module m's Params type or nested in it.
func (cx *Ctx) partOfParams(m string, nt *types.Named) bool {
	var params *types.Named
	for _, pk := range cx.P.Pkgs {
		if moduleOf(pk.PkgPath) != m || !strings.Contains(pk.PkgPath, "/types") {
			continue
		}
		if o, ok := pk.Types.Scope().Lookup("Params").(*types.TypeName); ok {
			if n := namedOf(o.Type()); n != nil && n.Obj().Pkg() == nt.Obj().Pkg() {
				params = n
			}
		}
	}
	if params == nil {
		return false
	}
	seen := map[*types.Named]bool{}
	var rec func(t types.Type, d int) bool
	rec = func(t types.Type, d int) bool {
		if d > 5 {
			return false
		}
		switch u := t.(type) {
		case *types.Pointer:
			return rec(u.Elem(), d+1)
		case *types.Slice:
			return rec(u.Elem(), d+1)
		case *types.Named:
			if u == nt || u.Obj() == nt.Obj() {
				return true
			}
			if seen[u] {
				return false
			}
			seen[u] = true
			if st, ok := u.Underlying().(*types.Struct); ok && u.Obj().Pkg() != nil && strings.HasPrefix(u.Obj().Pkg().Path(), modPrefix) {
				for i := 0; i < st.NumFields(); i++ {
					if rec(st.Field(i).Type(), d+1) {
						return true
					}
				}
			}
		}
		return false
	}
	return rec(params, 0)
}

// paramNarrowing (param-amount-not-narrowed): a panicking narrowing conversion -
// math.Int.Int64 / Uint64, LegacyDec.TruncateInt64 / RoundInt64 abort when the value does
// not fit 64 bits - is not applied to a value computed from a stored parameter. Amount
// parameters (fees, deposits, limits) are validated for sign only: a governance update to
// a large but valid amount would make every handler that passes this conversion panic.
func (cx *Ctx) paramNarrowing(r *Report, rule string) int {
	var roots []*ssa.Function
	for _, e := range cx.EntriesOf("msg", "abci", "ante", "callback", "hook") {
		roots = append(roots, e.Fn)
	}
	reach := cx.Reachable(roots, nil)
	fromParams := func(v ssa.Value, _ []*ssa.Call) bool {
		n := namedOf(v.Type())
		if n == nil || n.Obj().Pkg() == nil || n.Obj().Name() != "Params" || !strings.HasPrefix(n.Obj().Pkg().Path(), modPrefix) {
			return false
		}
		switch v.(type) {
		case *ssa.Call, *ssa.Extract, *ssa.Parameter:
			return true
		}
		return false
	}
	n := 0
	for _, f := range reach.Order {
		if f.Blocks == nil || !isIrismodFunc(f) || !isConsensusCode(cx, f) {
			continue
		}
		for _, b := range f.Blocks {
			for _, ins := range b.Instrs {
				c, ok := ins.(*ssa.Call)
				if !ok || c.Common().IsInvoke() || len(c.Common().Args) == 0 {
					continue
				}
				pkg, name := calleeName(c.Common())
				if pkg != "cosmossdk.io/math" || !(name == "Int.Int64" || name == "Int.Uint64" || name == "LegacyDec.TruncateInt64" || name == "LegacyDec.RoundInt64" || name == "Uint.Uint64") {
					continue
				}
				n++
				if cx.newSlicer(fromParams, false).derives(c.Common().Args[0], nil, -1) {
					r.violate(rule, moduleOf(funcPkgPath(f))+"|"+shortFn(f)+"|"+name, cx.P.Pos(c.Pos()), name+" in "+shortFn(f)+" narrows a value computed from the module's stored parameters to 64 bits and panics when it does not fit: an accepted (sign-checked only) amount parameter above 2^63 makes the handlers on this path abort ("+reach.Path(f)+")")
				}
			}
		}
	}
	r.ok(rule, "scan", "", fmt.Sprintf("%d panicking 64-bit narrowings on handler paths, none of a parameter-derived value", n))
	return n
}

// paramSubtractions (abort class "negative amount"): sdk.Coin.Sub / Coins.Sub / Uint.Sub abort
// on a negative result. Where an operand derives from a parameter read (a limit, a cap, a
// fee) the stored state can exceed the parameter after an accepted update, so the call needs
// a dominating test receiver ≥ argument on the same two values.
func (cx *Ctx) paramSubtractions(r *Report) {
	isParamsRead := func(v ssa.Value) bool {
		c, ok := v.(*ssa.Call)
		if !ok {
			return false
		}
		for _, e := range cx.calleesOf(c) {
			if e.Callee.Blocks == nil {
				continue
			}
			for _, pp := range cx.primsOf(e.Callee) {
				if pp.Kind == "store.get" {
					for _, px := range pp.Prefix {
						if isParamsPrefix(px) {
							return true
						}
					}
				}
			}
		}
		return false
	}
	type subSite struct {
		f    *ssa.Function
		c    *ssa.Call
		name string
	}
	var sites []subSite
	n, nParam := 0, 0
	for _, f := range cx.P.AllFuncs {
		if !isConsensusCode(cx, f) || pkgRole(funcPkgPath(f)) == RoleUpgrade {
			continue
		}
		for _, b := range f.Blocks {
			for _, ins := range b.Instrs {
				c, ok := ins.(*ssa.Call)
				if !ok || c.Common().IsInvoke() || len(c.Common().Args) < 2 {
					continue
				}
				pkg, name := calleeName(c.Common())
				panics := pkg == "github.com/cosmos/cosmos-sdk/types" && (name == "Coin.Sub" || name == "Coins.Sub" || name == "Coin.SubAmount" || name == "DecCoin.Sub" || name == "DecCoins.Sub") ||
					pkg == "cosmossdk.io/math" && name == "Uint.Sub"
				if !panics {
					continue
				}
				n++
				recv, arg := c.Common().Args[0], c.Common().Args[1]
				if !cx.derivesInterproc(recv, f, isParamsRead, 0, map[ssa.Value]bool{}) && !cx.derivesInterproc(arg, f, isParamsRead, 0, map[ssa.Value]bool{}) {
					continue
				}
				nParam++
				sites = append(sites, subSite{f, c, name})
			}
		}
	}
	// judged on the call chains that reach the site (the operands may be parameters of a
	// small component: fee.Sub(tax) in a settler whose caller computes tax = ⌊fee·rate⌋)
	isSite := map[ssa.Instruction]bool{}
	for _, st := range sites {
		isSite[st.c] = true
	}
	type occ struct {
		w  *Walker
		ev *Event
	}
	occs := map[ssa.Instruction][]occ{}
	if len(sites) > 0 {
		cx.forEachEvent(cx.EntriesOf("msg", "abci", "callback"), func(ci ssa.CallInstruction) string {
			if in, ok := ci.(ssa.Instruction); ok && isSite[in] {
				return "watch.sub"
			}
			return ""
		}, func(e *Entry, w *Walker, ev *Event) {
			if ev.Kind == "watch.sub" {
				occs[ev.Site] = append(occs[ev.Site], occ{w, ev})
			}
		})
	}
	for _, st := range sites {
		f, c, name := st.f, st.c, st.name
		list := occs[c]
		if len(list) == 0 {
			w := newWalker(cx)
			fr := &Frame{Fn: f}
			ev := &Event{Fr: fr, Kind: "watch.sub", Site: c}
			for _, a := range c.Common().Args {
				ev.Args = append(ev.Args, w.ts.Of(a, fr))
			}
			list = []occ{{w, ev}}
		}
		key := moduleOf(funcPkgPath(f)) + "|" + name + "|" + anchorOf(cx, f)
		bad, okWhy := "", ""
		for _, o := range list {
			if len(o.ev.Args) < 2 {
				continue
			}
			rt, at := o.ev.Args[0].LooseString(), o.ev.Args[1].LooseString()
			guard := ""
			for _, ft := range o.w.FactsAt(o.ev.Fr, o.ev.Site) {
				t := ft.Text
				switch {
				case ft.Holds && (strings.HasSuffix(t, ".IsGTE("+rt+", "+at+")") || strings.HasSuffix(t, ".IsAllGTE("+rt+", "+at+")") || strings.HasSuffix(t, ".GTE("+rt+", "+at+")") || strings.HasSuffix(t, ".IsLTE("+at+", "+rt+")") || strings.HasSuffix(t, ".LTE("+at+", "+rt+")")),
					!ft.Holds && (strings.HasSuffix(t, ".IsLT("+rt+", "+at+")") || strings.HasSuffix(t, ".LT("+rt+", "+at+")") || strings.HasSuffix(t, ".IsGT("+at+", "+rt+")") || strings.HasSuffix(t, ".GT("+at+", "+rt+")") || strings.HasSuffix(t, ".IsAnyGT("+at+", "+rt+")")):
					guard = ft.String()
				}
			}
			switch {
			case guard != "":
				okWhy = "the aborting subtraction is dominated by " + guard
			case strings.Contains(at, "math.LegacyDec.TruncateInt(math.LegacyDec.Mul(math.LegacyNewDecFromInt("+rt+".Amount), ") && strings.HasPrefix(at, "coin("+rt+".Denom, "):
				// x − ⌊x·rate⌋: never negative for a rate ≤ 1, which is the fee-tax-bounded obligation
				okWhy = "the receiver minus a truncated fraction of itself (" + trunc(rt, 80) + " − ⌊·rate⌋): not negative for a rate ≤ 1 (rule fee-tax-bounded)"
			default:
				bad = name + " of " + trunc(rt, 160) + " and " + trunc(at, 160) + " in " + shortFn(f) + " aborts (negative amount) when the argument exceeds the receiver; one of them comes from the module's parameters and no test receiver ≥ argument dominates the call: after an accepted parameter update (a limit lowered below the recorded supply) the handler panics instead of rejecting"
			}
		}
		r.check(bad == "", "params-subtraction", key, cx.P.Pos(c.Pos()), okWhy, bad)
	}
	r.ok("params-subtraction", "scan", "", fmt.Sprintf("%d aborting subtractions (Coin.Sub, Coins.Sub, Uint.Sub) in consensus code, %d with an operand derived from a parameter read, each under a receiver ≥ argument test", n, nParam))
}
