package main

// Helpers shared by the per-property rule files.

import (
	"fmt"
	"go/constant"
	"go/token"
	"go/types"
	"os"
	"path/filepath"
	"sort"
	"strings"

	"golang.org/x/tools/go/ssa"
)

// signerFields: Go message type name (per proto package) -> Go field names of
// the declared signer(s), read from the .proto sources.
func (cx *Ctx) signerFields() map[string][]string {
	if cx.signers != nil {
		return cx.signers
	}
	cx.signers = map[string][]string{}
	for _, pf := range walkGo(filepath.Join(cx.Repo, "proto", "irismod"), ".proto") {
		src, err := os.ReadFile(pf)
		if err != nil {
			continue
		}
		pp, err := parseProto(string(src))
		if err != nil {
			continue
		}
		for _, m := range pp.allMessages() {
			for _, s := range m.signers {
				cx.signers[pp.pkg+"."+m.name] = append(cx.signers[pp.pkg+"."+m.name], goCamel(s))
			}
		}
	}
	return cx.signers
}

func structFieldType(n *types.Named, field string) *types.Named {
	st, ok := n.Underlying().(*types.Struct)
	if !ok {
		return nil
	}
	for i := 0; i < st.NumFields(); i++ {
		if st.Field(i).Name() == field {
			return namedOf(st.Field(i).Type())
		}
	}
	return nil
}

func goCamel(s string) string {
	var sb strings.Builder
	up := true
	for _, c := range s {
		if c == '_' {
			up = true
			continue
		}
		if up {
			sb.WriteString(strings.ToUpper(string(c)))
			up = false
		} else {
			sb.WriteRune(c)
		}
	}
	return sb.String()
}

// msgTypeOf: for a msg entry, the proto full name of its request type and the
// signer terms ("msg.Sender" / "msg.Input.Address").
func (cx *Ctx) signerTermsOf(e *Entry) (msgType string, terms []string) {
	sig := e.Fn.Signature
	if sig.Params().Len() < 2 {
		return "", nil
	}
	t := sig.Params().At(sig.Params().Len() - 1).Type()
	n := namedOf(t)
	if n == nil {
		return "", nil
	}
	// proto package from go package: irismod.<module>[.v1|.v1beta1]
	gp := n.Obj().Pkg().Path()
	mod := moduleOf(gp)
	pkg := "irismod." + mod
	if strings.HasSuffix(gp, "/v1") {
		pkg += ".v1"
	} else if mod == "token" && strings.HasSuffix(gp, "/v1beta1") {
		pkg += "" // token v1beta1 lives in package irismod.token
	}
	msgType = pkg + "." + n.Obj().Name()
	sf := cx.signerFields()
	for _, f := range sf[msgType] {
		// nested signer: field is a message with its own signer
		nested := ""
		for k, v := range sf {
			if strings.HasPrefix(k, pkg+".") && len(v) > 0 {
				// is msg.f of type k?
				_ = k
			}
		}
		_ = nested
		terms = append(terms, "msg."+f)
	}
	// coinswap MsgSwapOrder: signer "input" → Input.Address
	var out []string
	for _, tm := range terms {
		fld := strings.TrimPrefix(tm, "msg.")
		if st := structFieldType(n, fld); st != nil {
			if sub := sf[pkg+"."+st.Obj().Name()]; len(sub) > 0 {
				for _, s2 := range sub {
					out = append(out, tm+"."+s2)
				}
				continue
			}
		}
		out = append(out, tm)
	}
	return msgType, out
}

// forEachEvent walks every chain from each entry and calls fn for every event.
func (cx *Ctx) forEachEvent(entries []Entry, watch func(ci ssa.CallInstruction) string, fn func(e *Entry, w *Walker, ev *Event)) (overflow []string) {
	for i := range entries {
		e := &entries[i]
		w := newWalker(cx)
		w.Watch = watch
		w.Walk(e.Fn, func(fr *Frame) {
			for _, ev := range w.EventsOf(fr) {
				fn(e, w, ev)
			}
		})
		if w.over {
			overflow = append(overflow, e.Role+":"+e.Module+"."+e.Name)
		}
		if w.cut > 0 {
			overflow = append(overflow, fmt.Sprintf("%s:%s.%s (%d chains truncated at depth %d)", e.Role, e.Module, e.Name, w.cut, maxChainDepth))
		}
		if w.maxDepth > cx.maxDepthSeen {
			cx.maxDepthSeen = w.maxDepth
		}
	}
	return
}

func entryKey(e *Entry) string { return e.Role + ":" + e.Module + "." + e.Name }

func argsLoose(ev *Event) []string {
	var out []string
	for _, a := range ev.Args {
		out = append(out, a.LooseString())
	}
	return out
}

// findSub: first subterm satisfying pred.
func findSub(t *Term, pred func(*Term) bool) *Term {
	if t == nil {
		return nil
	}
	if pred(t) {
		return t
	}
	for _, a := range t.Args {
		if r := findSub(a, pred); r != nil {
			return r
		}
	}
	return nil
}

// failGuard (DESIGN F3 FailGuard): in some frame of the chain, a branch whose
// condition mentions `sub` dominates the path to the site, and a failure exit of
// that function is dominated by the `polarity` edge of that branch.
func (w *Walker) failGuard(fr *Frame, site ssa.Instruction, polarity bool, subs ...string) (string, bool) {
	return w.failGuardX(fr, site, polarity, subs, nil)
}

// failGuardX additionally requires, for each entry of extra, a fact at the same
// failure exit whose text contains all of its substrings (the other conjuncts of
// the rejecting condition, which need not dominate the sink).
func (w *Walker) failGuardX(fr *Frame, site ssa.Instruction, polarity bool, subs []string, extra [][]string) (string, bool) {
	cur := site
	for f := fr; f != nil; f = f.Parent {
		if cur != nil {
			fn := f.Fn
			for _, b := range fn.Blocks {
				ifi, ok := b.Instrs[len(b.Instrs)-1].(*ssa.If)
				if !ok || !b.Dominates(cur.Block()) {
					continue
				}
				facts := expandCond(ifi.Cond, true, ifi)
				txt := w.ts.Of(facts[0].Cond, f).LooseString()
				match := true
				for _, s := range subs {
					if !strings.Contains(txt, s) {
						match = false
					}
				}
				if !match {
					continue
				}
				wantHolds := polarity == facts[0].Holds // polarity relative to the un-negated condition
				// a failure exit dominated by that edge
				for _, xb := range fn.Blocks {
					last := xb.Instrs[len(xb.Instrs)-1]
					isFail := false
					if r, ok := last.(*ssa.Return); ok && isFailureReturn(r) {
						isFail = true
					}
					if _, ok := last.(*ssa.Panic); ok {
						isFail = true
					}
					if !isFail {
						continue
					}
					dfs := dominatingFacts(xb)
					for _, df := range dfs {
						if df.If == ifi && df.Cond == facts[0].Cond && df.Holds == wantHolds {
							extraOK := true
							extraTxt := ""
							for _, ex := range extra {
								found := false
								for _, d2 := range dfs {
									t2 := w.ts.Of(d2.Cond, f).LooseString()
									all := true
									for _, s := range ex {
										if !strings.Contains(t2, s) {
											all = false
										}
									}
									if all {
										found = true
										pol := ""
										if !d2.Holds {
											pol = "¬"
										}
										extraTxt += " ∧ " + pol + t2
									}
								}
								if !found {
									extraOK = false
								}
							}
							if !extraOK {
								continue
							}
							return fmt.Sprintf("%s%s tested at %s, rejecting edge leads to the failure exit at %s", txt, extraTxt, w.cx.P.Pos(ifi.Pos()), w.cx.P.Pos(last.Pos())), true
						}
					}
				}
			}
		}
		if f.Call != nil {
			cur = f.Call
		} else if f.MC != nil {
			cur = f.MC
		} else {
			cur = nil
		}
	}
	return "", false
}

func sortedKeys[V any](m map[string]V) []string {
	var ks []string
	for k := range m {
		ks = append(ks, k)
	}
	sort.Strings(ks)
	return ks
}

// entriesOfModule: entries of the given roles whose module (without version suffix) is mod.
func (cx *Ctx) entriesOfModule(mod string, roles ...string) []Entry {
	var out []Entry
	for _, e := range cx.EntriesOf(roles...) {
		m := e.Module
		if i := strings.Index(m, "/"); i >= 0 {
			m = m[:i]
		}
		if m == mod {
			out = append(out, e)
		}
	}
	return out
}

// condFailGuard: somewhere up the chain a branch on a condition containing
// `subs` (a) rejects (its `rejectWhen` edge leads only to failure exits), (b)
// can reach the event's site, and (c) is itself dominated by a fact whose text
// contains condText with polarity condHolds — the same condition under which the
// event executes (checked by the caller). This is the "two separately written
// tests of one expression" pairing of DESIGN §6.
func (w *Walker) condFailGuard(ev *Event, subs []string, rejectWhen bool, condText string, condHolds bool) (string, bool) {
	var cur ssa.Instruction = ev.Site
	for f := ev.Fr; f != nil; f = f.Parent {
		if cur != nil {
			for _, b := range f.Fn.Blocks {
				ifi, ok := b.Instrs[len(b.Instrs)-1].(*ssa.If)
				if !ok || !instrReaches(ifi, cur) {
					continue
				}
				fs := expandCond(ifi.Cond, true, ifi)
				txt := w.ts.Of(fs[0].Cond, f).LooseString()
				all := true
				for _, s := range subs {
					if !strings.Contains(txt, s) {
						all = false
					}
				}
				if !all {
					continue
				}
				// which successor is taken when the (un-negated) condition == rejectWhen
				idx := 0
				if fs[0].Holds != rejectWhen {
					idx = 1
				}
				if !onlyFailureExits(b.Succs[idx], b) {
					continue
				}
				// every condition guarding the test also holds at the event: whenever the
				// event executes, the test was executed before it
				evFacts := map[string]bool{}
				for _, ft := range w.FactsAt(ev.Fr, ev.Site) {
					evFacts[ft.String()] = true
				}
				subset, hasCond := true, false
				var under []string
				for _, ft := range w.blockFacts(f, b, 0) {
					if isOutcomeFact(ft.Text) {
						continue
					}
					if !evFacts[ft.String()] {
						subset = false
					}
					if ft.Holds == condHolds && strings.Contains(ft.Text, condText) {
						hasCond = true
					}
					under = append(under, ft.String())
				}
				if subset && hasCond {
					return txt + " tested under {" + strings.Join(under, " ∧ ") + "} at " + w.cx.P.Pos(ifi.Pos()), true
				}
			}
		}
		if f.Call != nil {
			cur = f.Call
		} else if f.MC != nil {
			cur = f.MC
		} else {
			cur = nil
		}
	}
	return "", false
}

// pathGuard: in some frame of the chain, on EVERY feasible path from that
// function's entry to the (lifted) site, an atomic condition whose text contains
// all of subs has been decided with the given value. Unlike failGuard this
// follows conjunctions/disjunctions exactly: `if U && (A || B) { reject }`
// guards a sink only if the sink's own path condition implies (A || B).
type guardAlt struct {
	Value  bool
	Subs   []string
	Suffix string // optional: the atom's text must end with this
}

func (w *Walker) pathGuard(fr *Frame, site ssa.Instruction, value bool, subs ...string) (string, bool) {
	return w.pathGuardAny(fr, site, guardAlt{Value: value, Subs: subs})
}

// pathGuardAny: every feasible path decides at least one of the alternatives.
func (w *Walker) pathGuardAny(fr *Frame, site ssa.Instruction, alts ...guardAlt) (string, bool) {
	cur := site
	for f := fr; f != nil; f = f.Parent {
		if cur != nil && f.Fn != nil && f.Fn.Blocks != nil {
			ff := f
			envs, atomVal, complete := pathAssignmentsV(f.Fn, cur, func(v ssa.Value) string { return w.ts.Of(v, ff).LooseString() })
			if complete && len(envs) > 0 {
				all := true
				used := map[string]bool{}
				for _, env0 := range envs {
					// what the decided atoms imply: a guard helper that returned nil / true / false
					env := map[string]bool{}
					var guards []CallFact
					for k, v := range env0 {
						env[k] = v
						for _, ft := range withEquivalents([]FactT{{Text: k, Holds: v}}) {
							if _, ok := env[ft.Text]; !ok {
								env[ft.Text] = ft.Holds
							}
						}
						val := atomVal[k]
						var cf *CallFact
						switch x := val.(type) {
						case *ssa.BinOp:
							if (x.Op == token.EQL || x.Op == token.NEQ) && (isNilConst(x.X) || isNilConst(x.Y)) {
								for _, side := range []ssa.Value{x.X, x.Y} {
									if call := callOfErr(side); call != nil {
										outcome := "err!=nil"
										if (x.Op == token.EQL) == v {
											outcome = "err==nil"
										}
										cf = &CallFact{Call: call, Outcome: outcome}
									}
								}
							}
						case *ssa.Call:
							if bt, ok := x.Type().Underlying().(*types.Basic); ok && bt.Kind() == types.Bool {
								outcome := "false"
								if v {
									outcome = "true"
								}
								cf = &CallFact{Call: x, Outcome: outcome}
							}
						}
						if cf != nil {
							for _, ft := range withEquivalents(w.impliedFacts(ff, *cf, 0)) {
								if isOutcomeFact(ft.Text) {
									continue
								}
								if _, ok := env[ft.Text]; !ok {
									env[ft.Text] = ft.Holds
								}
							}
							guards = append(guards, *cf)
						}
					}
					// disjunctive guards (`if !R || ok { return nil }`): every path through the
					// helper to a matching return must decide one of the alternatives
					expanded := []map[string]bool{env}
					for _, g := range guards {
						sub := w.calleePathEnvs(ff, g)
						if len(sub) == 0 || len(sub)*len(expanded) > 256 {
							continue
						}
						var next []map[string]bool
						for _, e1 := range expanded {
							for _, e2 := range sub {
								m := map[string]bool{}
								for k, v := range e1 {
									m[k] = v
								}
								for k, v := range e2 {
									if _, ok := m[k]; !ok {
										m[k] = v
									}
								}
								next = append(next, m)
							}
						}
						expanded = next
					}
					// a decided atom computed by helpers over an enumeration / a plan record: every
					// alternative that gives it this value is a path of its own (constalts.go)
					for k, v := range env0 {
						val := atomVal[k]
						if val == nil || !involvesEnumHelper(val, 0) {
							continue
						}
						as, okA := w.constAlts(ff, val, 0)
						if !okA {
							continue
						}
						var sub []map[string]bool
						for _, a := range as {
							if a.val.Kind() != constant.Bool || constant.BoolVal(a.val) != v {
								continue
							}
							m := map[string]bool{}
							for _, f := range a.facts {
								m[f.Text] = f.Holds
							}
							sub = append(sub, m)
						}
						if len(sub) == 0 || len(sub)*len(expanded) > 256 {
							continue
						}
						var next []map[string]bool
						for _, e1 := range expanded {
							for _, e2 := range sub {
								m := map[string]bool{}
								clash := false
								for k, v := range e1 {
									m[k] = v
								}
								for k, v := range e2 {
									if old, ok := m[k]; ok && old != v {
										clash = true
									}
									if _, ok := m[k]; !ok {
										m[k] = v
									}
								}
								if !clash {
									next = append(next, m)
								}
							}
						}
						if len(next) > 0 {
							expanded = next
						}
					}
					allFound := true
					for _, env := range expanded {
						found := false
						for k, v := range env {
							for _, a := range alts {
								match := v == a.Value && strings.HasSuffix(k, a.Suffix)
								for _, s := range a.Subs {
									if !strings.Contains(k, s) {
										match = false
									}
								}
								if match {
									found = true
									used[fmt.Sprintf("%s is %v", k, v)] = true
								}
							}
						}
						if !found {
							allFound = false
						}
					}
					if !allFound {
						all = false
						break
					}
					continue
					found := false
					for k, v := range env {
						for _, a := range alts {
							match := v == a.Value && strings.HasSuffix(k, a.Suffix)
							for _, s := range a.Subs {
								if !strings.Contains(k, s) {
									match = false
								}
							}
							if match {
								found = true
								used[fmt.Sprintf("%s is %v", k, v)] = true
							}
						}
					}
					if !found {
						all = false
						break
					}
				}
				if all {
					return fmt.Sprintf("on all %d feasible paths of %s to the site: %s", len(envs), shortFn(f.Fn), strings.Join(sortedKeys(used), " or ")), true
				}
			}
		}
		switch {
		case f.Via != nil:
			cur = f.ViaSite
			f = &Frame{Parent: f.Via}
			continue
		case f.Call != nil:
			cur = f.Call
		case f.MC != nil:
			cur = f.MC
		default:
			cur = nil
		}
	}
	return "", false
}

// calleePathEnvs: the decided atoms (with equivalents) of every feasible path
// through the static callee of a guard call to a return matching its outcome.
func (w *Walker) calleePathEnvs(fr *Frame, cf CallFact) []map[string]bool {
	g := cf.Call.Common().StaticCallee()
	if g == nil || g.Blocks == nil || !isIrismodFunc(g) || onChain(fr, g) {
		return nil
	}
	nfr := &Frame{Fn: g, Parent: fr, Call: cf.Call, Depth: fr.Depth + 1}
	var out []map[string]bool
	for _, r := range returnsOf(g) {
		ok := false
		switch cf.Outcome {
		case "err==nil":
			ok = !isFailureReturn(r)
		case "err!=nil":
			ok = lastResultIsError(g) && !isNilConst(r.Results[len(r.Results)-1])
		case "true", "false":
			if len(r.Results) == 1 {
				if c, isC := r.Results[0].(*ssa.Const); isC && c.Value != nil {
					ok = (c.Value.ExactString() == "true") == (cf.Outcome == "true")
				} else {
					ok = true
				}
			}
		}
		if !ok {
			continue
		}
		nameOf := func(v ssa.Value) string { return w.ts.Of(v, nfr).LooseString() }
		var envs []map[string]bool
		var complete bool
		if (cf.Outcome == "true" || cf.Outcome == "false") && len(r.Results) == 1 {
			envs, complete = pathAssignmentsRet(g, r, cf.Outcome == "true", nameOf)
		} else {
			envs, complete = pathAssignments(g, r, nameOf)
		}
		if !complete {
			return nil
		}
		// the atoms as values: a decided atom computed over an enumeration / bit set by
		// further helpers implies what is common to its alternatives (constalts.go)
		atomOf := map[string]ssa.Value{}
		for _, b := range g.Blocks {
			for _, ins := range b.Instrs {
				var c ssa.Value
				switch x := ins.(type) {
				case *ssa.If:
					c = x.Cond
				case *ssa.Return:
					if len(x.Results) == 1 {
						c = x.Results[0]
					}
				case *ssa.Phi:
					for _, e := range x.Edges {
						if _, isC := e.(*ssa.Const); !isC && isBoolType(e.Type()) {
							for _, f := range expandCond(e, true, nil) {
								atomOf[nameOf(f.Cond)] = f.Cond
							}
						}
					}
				}
				if c != nil && isBoolType(c.Type()) {
					for _, f := range expandCond(c, true, nil) {
						atomOf[nameOf(f.Cond)] = f.Cond
					}
				}
			}
		}
		for _, e := range envs {
			m := map[string]bool{}
			for k, v := range e {
				m[k] = v
				for _, ft := range withEquivalents([]FactT{{Text: k, Holds: v}}) {
					if _, has := m[ft.Text]; !has {
						m[ft.Text] = ft.Holds
					}
				}
			}
			for k, v := range e {
				if av, ok := atomOf[k]; ok {
					for _, ft := range w.condAltFacts(nfr, av, v) {
						if _, has := m[ft.Text]; !has {
							m[ft.Text] = ft.Holds
						}
					}
				}
			}
			out = append(out, m)
		}
	}
	return out
}
