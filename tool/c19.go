package main

// C19 — Record: one writer and no deleter of the record prefix, key derived from
// the record and the counter, counter advanced on every path after the write.

import (
	"fmt"
	"go/token"
	"go/types"
	"strings"

	"golang.org/x/tools/go/ssa"
)

func init() { register("C19", true, true, "other", runC19) }

const (
	recPrefix = "record:RecordKey=0x01"
	recCtr    = "record:IntraTxCounterKey=0x02"
)

// c19IsInc is set while runC19 runs (shared between its rule blocks).
var c19IsInc func(ssa.Value) bool

// bufDerives: v (possibly a byte buffer filled through copy/PutUintXX/append)
// derives from a value satisfying pred.
// bufParamArgs: the arguments bound to a parameter at all static call sites of its
// function (nil when some call site is not static). Set by runC19.
var bufParamArgs func(p *ssa.Parameter) []ssa.Value

func bufDerives(v ssa.Value, pred func(ssa.Value) bool, depth int, seen map[ssa.Value]bool) bool {
	if v == nil || depth > 30 || seen[v] {
		return false
	}
	seen[v] = true
	if pred(v) {
		return true
	}
	switch x := v.(type) {
	case *ssa.Parameter:
		// a parameter of a helper split off the writer: the bound argument at every call site
		if bufParamArgs != nil {
			args := bufParamArgs(x)
			all := len(args) > 0
			for _, a := range args {
				if !bufDerives(a, pred, depth+1, seen) {
					all = false
				}
			}
			if all {
				return true
			}
		}
	case *ssa.MakeSlice, *ssa.Alloc:
		// writers into the buffer: calls receiving (a slice of) it
		if bufWriters(v, pred, depth, seen) {
			return true
		}
		_ = x
	case *ssa.Slice:
		if bufDerives(x.X, pred, depth+1, seen) {
			return true
		}
	}
	if ins, ok := v.(ssa.Instruction); ok {
		for _, op := range ins.Operands(nil) {
			if op != nil && *op != nil && bufDerives(*op, pred, depth+1, seen) {
				return true
			}
		}
	}
	return false
}

func bufWriters(buf ssa.Value, pred func(ssa.Value) bool, depth int, seen map[ssa.Value]bool) bool {
	refs := buf.Referrers()
	if refs == nil {
		return false
	}
	for _, r := range *refs {
		switch x := r.(type) {
		case *ssa.Slice:
			if bufWriters(x, pred, depth+1, seen) {
				return true
			}
		case ssa.CallInstruction:
			for _, a := range x.Common().Args {
				if a != buf && bufDerives(a, pred, depth+1, seen) {
					return true
				}
			}
		case *ssa.Store:
			if x.Addr == buf && bufDerives(x.Val, pred, depth+1, seen) {
				return true
			}
		case *ssa.IndexAddr:
			for _, r2 := range *x.Referrers() {
				if st, ok := r2.(*ssa.Store); ok && bufDerives(st.Val, pred, depth+1, seen) {
					return true
				}
			}
		}
	}
	return false
}

func runC19(cx *Ctx, r *Report) {
	r.Explanation = "F2/F3: over all consensus code of modules/record the store accesses are enumerated with resolved key prefixes. Required: exactly one Set and no Delete on the record prefix 0x01; that Set's key is a function of both the marshalled record and the value read from the counter key 0x02 (backward slice through the byte buffer that is hashed); the same function writes counter+1 to 0x02 on every path after the Set (mutual must-pass); the Msg service has the single rpc CreateRecord whose stored record is built from the transaction hash, msg.Contents and the declared signer, and whose returned id is the value the key was built from. Together these make overwriting or deleting an existing record structurally impossible short of a hash collision, which is not decided."
	r.Assumptions = []string{"tmhash (SHA-256) is collision free for practical purposes", "other modules cannot reach the record store key (store keys are per module in the application wiring)"}
	var sets, dels []Prim
	nAcc := 0
	for _, f := range cx.P.AllFuncs {
		if !isConsensusCode(cx, f) {
			continue
		}
		for _, p := range cx.primsOf(f) {
			if !strings.HasPrefix(p.Kind, "store.") {
				continue
			}
			touches := false
			for _, px := range p.Prefix {
				if px == recPrefix {
					touches = true
				}
				if strings.Contains(px, "?") && p.Module == "record" {
					r.toolErr("unresolved key prefix %s at %s", px, cx.P.Pos(p.Site.Pos()))
				}
			}
			if p.Module == "record" {
				nAcc++
			}
			if !touches {
				continue
			}
			if p.Module != "record" {
				r.violate("who-may-write", "foreign|"+p.Kind+"|"+p.Module, cx.P.Pos(p.Site.Pos()), "module "+p.Module+" touches the record prefix")
				continue
			}
			switch p.Kind {
			case "store.set":
				sets = append(sets, p)
			case "store.delete":
				dels = append(dels, p)
			}
		}
	}
	r.Extra["record_store_accesses"] = nAcc
	r.check(len(sets) == 1, "who-may-write", "set|0x01", posOfPrims(cx, sets), fmt.Sprintf("exactly one Set on prefix 0x01 (%s)", posOfPrims(cx, sets)), fmt.Sprintf("%d Set sites on the record prefix 0x01 (%s); a second writer can overwrite a stored record", len(sets), posOfPrims(cx, sets)))
	r.check(len(dels) == 0, "who-may-write", "delete|0x01", posOfPrims(cx, dels), "no Delete on prefix 0x01 anywhere", fmt.Sprintf("%d Delete sites on the record prefix 0x01 (%s)", len(dels), posOfPrims(cx, dels)))
	var idKeyLocal, idKeySeen, idKeyChain bool
	var idKeyPos, idKeyFn string
	if len(sets) >= 1 {
		p := sets[0]
		f := p.Fn
		key := storeArgs(p.Site)[0]
		// counter reads in f: calls whose callee reads prefix 0x02
		isCounterRead := func(v ssa.Value) bool {
			c, ok := v.(*ssa.Call)
			if !ok {
				return false
			}
			if cx.classifyCall(c) == "store.get" {
				for _, px := range cx.storeKeyPrefix(c, "store.get") {
					if px == recCtr {
						return true
					}
				}
			}
			for _, e := range cx.calleesOf(c) {
				if e.Callee.Blocks == nil {
					continue
				}
				for _, pp := range cx.primsOf(e.Callee) {
					if pp.Kind == "store.get" && len(pp.Prefix) == 1 && pp.Prefix[0] == recCtr {
						return true
					}
				}
			}
			return false
		}
		isRecordParam := func(v ssa.Value) bool {
			pa, ok := v.(*ssa.Parameter)
			return ok && typeIs(pa.Type(), modPrefix+"modules/record/types", "Record")
		}
		bufParamArgs = func(pa *ssa.Parameter) []ssa.Value {
			fn := pa.Parent()
			idx := -1
			for i, q := range fn.Params {
				if q == pa {
					idx = i
				}
			}
			var out []ssa.Value
			for _, cs := range cx.CallersOf(fn) {
				cc := cs.Site.Common()
				if cc.IsInvoke() || cc.StaticCallee() != fn || idx < 0 || idx >= len(cc.Args) {
					return nil
				}
				out = append(out, cc.Args[idx])
			}
			return out
		}
		defer func() { bufParamArgs = nil }()
		okCtr := cx.newSlicer(func(v ssa.Value, _ []*ssa.Call) bool { return isCounterRead(v) }, false).derives(key, nil, -1)
		okRec := cx.newSlicer(func(v ssa.Value, _ []*ssa.Call) bool { return isRecordParam(v) }, false).derives(key, nil, -1)
		// "the value is (counter read) + 1", wherever the addition is spelled (inline, in a
		// helper, in a method of a small struct that carries the counter)
		isInc := func(arg ssa.Value) bool {
			incPred := func(v ssa.Value, stack []*ssa.Call) bool {
				bo, ok := v.(*ssa.BinOp)
				if !ok || bo.Op != token.ADD {
					return false
				}
				x := bo.X
				c, isC := bo.Y.(*ssa.Const)
				if !isC {
					c, isC = bo.X.(*ssa.Const)
					x = bo.Y
				}
				if !isC || c.Value == nil || c.Int64() != 1 {
					return false
				}
				return cx.newSlicer(func(w ssa.Value, _ []*ssa.Call) bool { return isCounterRead(w) }, true).derives(x, stack, -1)
			}
			return cx.newSlicer(incPred, true).derives(arg, nil, -1)
		}
		c19IsInc = isInc
		r.check(okCtr, "key-from-counter", "0x01", cx.P.Pos(p.Site.Pos()), "the record key derives from the value read under counter key 0x02", "the record key does not depend on the counter stored under 0x02: two identical records in one transaction would overwrite each other")
		r.check(okRec, "key-from-record", "0x01", cx.P.Pos(p.Site.Pos()), "the record key derives from the record contents", "the record key does not depend on the record contents")
		// counter+1 written after the Set on every path: in the function holding the Set,
		// or - when the Set sits in a helper - after the helper call in each of its callers
		var advAt func(f *ssa.Function, site ssa.Instruction, depth int) bool
		advAt = func(f *ssa.Function, site ssa.Instruction, depth int) bool {
			var ctrSites []ssa.Instruction
			for _, b := range f.Blocks {
				for _, ins := range b.Instrs {
					c, ok := ins.(*ssa.Call)
					if !ok {
						continue
					}
					writes := false
					if cx.classifyCall(c) == "store.set" {
						for _, px := range cx.storeKeyPrefix(c, "store.set") {
							if px == recCtr {
								writes = true
							}
						}
					}
					for _, e := range cx.calleesOf(c) {
						if e.Callee.Blocks == nil {
							continue
						}
						for _, pp := range cx.primsOf(e.Callee) {
							if pp.Kind == "store.set" && len(pp.Prefix) == 1 && pp.Prefix[0] == recCtr {
								writes = true
							}
						}
					}
					if !writes {
						continue
					}
					// argument is counter+1
					inc := false
					for _, a := range c.Common().Args {
						if bt, isB := a.Type().Underlying().(*types.Basic); isB && bt.Info()&types.IsInteger != 0 && isInc(a) {
							inc = true
						}
					}
					// (or the encoded counter+1 is the value of the write itself)
					if !inc && cx.classifyCall(c) == "store.set" {
						if sa := storeArgs(c); len(sa) == 2 && isInc(sa[1]) {
							inc = true
						}
					}
					if inc {
						ctrSites = append(ctrSites, ins)
					}
				}
			}
			for _, s := range ctrSites {
				if mutualMust(site, s) && (site.Block() != s.Block() && site.Block().Dominates(s.Block()) || site.Block() == s.Block() && instrIndex(site) < instrIndex(s)) {
					return true
				}
			}
			if depth >= 3 || !mustPass(f, func(x ssa.Instruction) bool { return x == site }) {
				return false
			}
			callers := cx.CallersOf(f)
			if len(callers) == 0 {
				return false
			}
			for _, cs := range callers {
				ci, isInstr := cs.Site.(ssa.Instruction)
				if !isInstr || cs.Site.Common().StaticCallee() != f || !advAt(cs.Caller, ci, depth+1) {
					return false
				}
			}
			return true
		}
		okAdv := advAt(f, p.Site, 0)
		r.check(okAdv, "counter-advances", "0x02", cx.P.Pos(p.Site.Pos()), "counter+1 is written to 0x02 on every path after the record Set", "no must-executed write of counter+1 to 0x02 after the record Set in "+shortFn(f))
		// returned id is the id the key was built from
		okRet := false
		if kc, ok := key.(*ssa.Call); ok && len(kc.Call.Args) == 1 {
			for _, ret := range returnsOf(f) {
				if len(ret.Results) == 1 && ret.Results[0] == kc.Call.Args[0] {
					okRet = true
				}
			}
		}
		// through a prefix store the id itself is the (relative) key
		for _, ret := range returnsOf(f) {
			if len(ret.Results) == 1 && ret.Results[0] == key && len(storeArgs(p.Site)) != len(p.Site.Common().Args) {
				okRet = true
			}
		}
		idKeyLocal, idKeyPos, idKeyFn = okRet, cx.P.Pos(p.Site.Pos()), shortFn(f)
		idKeySeen = true
	}
	// ---------------- the counter never goes back: every run-time write of 0x02 (outside
	// genesis import) stores counter+1. A reset (per block, per tx) lets hash(record ||
	// counter) repeat for a byte-identical record, and the later creation then lands on
	// the earlier record's key.
	{
		writesCtr := func(g *ssa.Function) bool {
			if g == nil || g.Blocks == nil {
				return false
			}
			for _, pp := range cx.primsOf(g) {
				if pp.Kind == "store.set" && len(pp.Prefix) == 1 && pp.Prefix[0] == recCtr {
					return true
				}
			}
			return false
		}
		readsCtr := func(v ssa.Value) bool {
			c, ok := v.(*ssa.Call)
			if !ok {
				return false
			}
			for _, e := range cx.calleesOf(c) {
				if e.Callee.Blocks == nil {
					continue
				}
				for _, pp := range cx.primsOf(e.Callee) {
					if pp.Kind == "store.get" && len(pp.Prefix) == 1 && pp.Prefix[0] == recCtr {
						return true
					}
				}
			}
			return false
		}
		genesisFns := cx.Reachable(cx.entryFns(cx.entriesOfModule("record", "genesis")), nil)
		_ = readsCtr
		// setters: functions that store one of their own integer parameters under 0x02, and
		// wrappers that forward one of their parameters to a setter
		setters := map[*ssa.Function]bool{}
		for _, f := range cx.P.AllFuncs {
			if f.Blocks != nil && isConsensusCode(cx, f) && writesCtr(f) {
				setters[f] = true
			}
		}
		forwardsOwnParam := func(f *ssa.Function, arg ssa.Value) bool {
			return cx.newSlicer(func(v ssa.Value, st []*ssa.Call) bool {
				p, ok := v.(*ssa.Parameter)
				return ok && p.Parent() == f && len(st) == 0
			}, true).derives(arg, nil, -1)
		}
		intArgs := func(c *ssa.Call) []ssa.Value {
			var out []ssa.Value
			for _, a := range c.Common().Args {
				if bt, isB := a.Type().Underlying().(*types.Basic); isB && bt.Info()&types.IsInteger != 0 {
					out = append(out, a)
				}
			}
			return out
		}
		for changed := true; changed; {
			changed = false
			for _, f := range cx.P.AllFuncs {
				if f.Blocks == nil || !isConsensusCode(cx, f) || setters[f] {
					continue
				}
				for _, b := range f.Blocks {
					for _, ins := range b.Instrs {
						c, ok := ins.(*ssa.Call)
						if !ok || c.Common().StaticCallee() == nil || !setters[c.Common().StaticCallee()] {
							continue
						}
						for _, a := range intArgs(c) {
							if forwardsOwnParam(f, a) {
								setters[f] = true
								changed = true
							}
						}
					}
				}
			}
		}
		nW := 0
		for _, f := range cx.P.AllFuncs {
			if f.Blocks == nil || !isConsensusCode(cx, f) || setters[f] {
				continue // a setter stores what it is given; its callers are judged
			}
			for _, b := range f.Blocks {
				for _, ins := range b.Instrs {
					c, ok := ins.(*ssa.Call)
					if !ok {
						continue
					}
					hit := false
					for _, e := range cx.calleesOf(c) {
						if setters[e.Callee] {
							hit = true
						}
					}
					if !hit {
						continue
					}
					if genesisFns.Has(f) && f.Name() == "InitGenesis" {
						continue // import restores the exported value
					}
					nW++
					inc := false
					if c19IsInc != nil {
						for _, a := range intArgs(c) {
							if c19IsInc(a) {
								inc = true
							}
						}
					}
					r.check(inc, "counter-monotone", shortFn(f), cx.P.Pos(c.Pos()), "the counter is written as (value read from 0x02) + 1", "the id counter under 0x02 is written in "+shortFn(f)+" with a value that is not counter+1 (a reset or an arbitrary value): the counter can repeat, and a byte-identical record then gets the id of an existing record and overwrites it")
				}
			}
		}
		if nW < 1 {
			r.toolErr("no run-time write of the record counter found (AddRecord confirmed)")
		}
	}
	// read-back: the answer to a lookup by id comes from the store and nothing else. A
	// process-local memo of lookups (a map or sync.Map in the keeper) can serve a stale
	// "not found" for an id that was looked up before its record was committed.
	{
		var roots []*ssa.Function
		for _, e := range cx.entriesOfModule("record", "query") {
			roots = append(roots, e.Fn)
		}
		for _, f := range cx.gettersOf("record", []string{recPrefix}) {
			roots = append(roots, f)
		}
		if len(roots) < 2 {
			r.toolErr("record read path: %d query handlers / getters of the record prefix found (≥2 confirmed)", len(roots))
		}
		uses := cx.processStateUses(roots)
		pos := ""
		if len(uses) > 0 {
			pos = strings.SplitN(uses[0], " ", 2)[0]
		}
		r.check(len(uses) == 0, "read-back-from-store", "record", pos, fmt.Sprintf("the %d query handlers and getters of the record prefix use no process-local state: a lookup is answered from the store", len(roots)), "the record read path uses process-local state ("+strings.Join(uses, "; ")+"): an answer can come from this process's memory instead of the store, e.g. a memoised 'not found' for an id whose record was committed later")
	}
	// message surface
	entries := cx.entriesOfModule("record", "msg")
	r.check(len(entries) == 1 && entries[0].Name == "CreateRecord", "msg-surface", "record", "", "the record Msg service has the single rpc CreateRecord", fmt.Sprintf("record Msg service has %d rpcs (expected only CreateRecord): a new rpc needs review against immutability", len(entries)))
	cx.forEachEvent(entries, nil, func(e *Entry, w *Walker, ev *Event) {
		if ev.Kind != "store.set" || !hasPrefix(ev, recPrefix) {
			return
		}
		_, signers := cx.signerTermsOf(e)
		val := ev.Args[1].LooseString()
		ok := false
		if st := findSub(ev.Args[1], func(t *Term) bool { return t.Op == "struct" && t.Name == "Record" }); st != nil && len(signers) == 1 {
			got := map[string]string{}
			for i := 0; i+1 < len(st.Args); i += 2 {
				got[st.Args[i].Name] = st.Args[i+1].LooseString()
			}
			ok = got["Contents"] == "msg.Contents" && got["Creator"] == signers[0] && strings.Contains(got["TxHash"], "TxBytes") && len(got) == 3
		}
		r.check(ok, "contents", e.Name, ev.Pos(cx), "stored value is built from the transaction bytes' hash, msg.Contents and the declared signer", "stored record is not built from tx hash, msg.Contents and the declared signer: "+val)
		// the id handed back up the chain is the id the key was built from, wherever the Set
		// is spelled (inline, or in a component that takes the entry with its id)
		if kt := findSub(ev.Args[0], func(t *Term) bool {
			return t.Op == "call" && strings.HasSuffix(t.Name, "GetRecordKey") && len(t.Args) == 1
		}); kt != nil {
			id := kt.Args[0].LooseString()
			for fr := ev.Fr; fr != nil && !idKeyChain; fr = fr.Parent {
				n, same := 0, 0
				for _, ret := range returnsOf(fr.Fn) {
					if len(ret.Results) == 0 || isFailureReturn(ret) {
						continue
					}
					if sl, isSl := ret.Results[0].Type().Underlying().(*types.Slice); !isSl || !types.Identical(sl.Elem(), types.Typ[types.Byte]) {
						continue
					}
					n++
					if w.ts.Of(ret.Results[0], fr).LooseString() == id {
						same++
					}
				}
				if n > 0 {
					idKeyChain = same == n
					break // the innermost function that hands an id back decides
				}
			}
		}
	})
	if idKeySeen {
		r.check(idKeyLocal || idKeyChain, "id-is-key", "0x01", idKeyPos, "the function returns the very id the stored key was built from", "the id returned by "+idKeyFn+" is not the value used to build the stored key")
	}
	// ---------------- the whole counter enters the id
	{
		getters := map[*ssa.Function]bool{}
		for _, g := range cx.gettersOf("record", []string{"record:IntraTxCounterKey=0x02"}) {
			getters[g] = true
		}
		isCounterRead := func(v ssa.Value) bool {
			c, ok := v.(*ssa.Call)
			return ok && c.Common().StaticCallee() != nil && getters[c.Common().StaticCallee()]
		}
		n, bad := 0, ""
		for _, f := range cx.P.AllFuncs {
			if !isConsensusCode(cx, f) || moduleOf(funcPkgPath(f)) != "record" {
				continue
			}
			for _, b := range f.Blocks {
				for _, ins := range b.Instrs {
					cv, ok := ins.(*ssa.Convert)
					if !ok {
						continue
					}
					src, ok1 := cv.X.Type().Underlying().(*types.Basic)
					dst, ok2 := cv.Type().Underlying().(*types.Basic)
					if !ok1 || !ok2 || src.Info()&types.IsInteger == 0 || dst.Info()&types.IsInteger == 0 {
						continue
					}
					if !cx.derivesInterproc(cv.X, f, isCounterRead, 0, map[ssa.Value]bool{}) {
						continue
					}
					n++
					if types.SizesFor("gc", "amd64").Sizeof(dst) < types.SizesFor("gc", "amd64").Sizeof(src) {
						bad = fmt.Sprintf("%s: the record counter is narrowed from %s to %s before it is used (ids repeat when the counter wraps the narrower type)", cx.P.Pos(cv.Pos()), src.Name(), dst.Name())
					}
				}
			}
		}
		r.check(bad == "", "counter-full-width", "AddRecord", "", fmt.Sprintf("the running counter reaches the id preimage at full width (%d integer conversions of it, none narrowing)", n), bad)
	}
	cx.lostUpdateRule(r, []string{"record"}, 2)
	r.requireCount("contents", 1)
	r.requireCount("who-may-write", 2)
}

func posOfPrims(cx *Ctx, ps []Prim) string {
	var s []string
	for _, p := range ps {
		s = append(s, cx.P.Pos(p.Site.Pos()))
	}
	return strings.Join(s, ", ")
}
