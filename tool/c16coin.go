package main

import (
	"go/token"
	"go/types"
	"strings"

	"golang.org/x/tools/go/ssa"
)

// coinParamsValidated: a coin-typed parameter is consumed by the panicking coin
// constructors (sdk.NewCoin / sdk.NewCoins on the stored denom) in the fee handlers. The
// validation that guards SetParams and MsgUpdateParams.ValidateBasic must therefore
// establish the coin's own validity (denom and amount) on every accepting path:
// IsValid() true, Validate() == nil, or sdk.ValidateDenom(x.Denom) == nil, directly or
// through a per-field validator called with that field. A validator that only looks at
// the amount accepts a denom under which every fee-charging message aborts.
func (cx *Ctx) coinParamsValidated(r *Report) {
	n := 0
	for _, f := range cx.P.AllFuncs {
		if f.Name() != "SetParams" || f.Signature.Recv() == nil || f.Blocks == nil || !isConsensusCode(cx, f) {
			continue
		}
		if !strings.HasSuffix(funcPkgPath(f), "/keeper") {
			continue
		}
		for _, b := range f.Blocks {
			for _, ins := range b.Instrs {
				c, ok := ins.(*ssa.Call)
				if !ok {
					continue
				}
				v := c.Common().StaticCallee()
				if v == nil || v.Name() != "Validate" || v.Signature.Recv() == nil || v.Blocks == nil || len(v.Params) == 0 {
					continue
				}
				rt := v.Signature.Recv().Type()
				if p, ok := rt.(*types.Pointer); ok {
					rt = p.Elem()
				}
				st, ok := rt.Underlying().(*types.Struct)
				if !ok {
					continue
				}
				for i := 0; i < st.NumFields(); i++ {
					if !isSdkCoinType(st.Field(i).Type()) {
						continue
					}
					n++
					idx := i
					recv := v.Params[0]
					subj := func(x ssa.Value) bool { return isFieldOf(x, recv, idx) }
					ok, where := validOnAccept(v, subj, 0)
					if !ok && (hasDynamicErrorCall(v) || len(v.AnonFuncs) > 0) {
						// a table of check closures (run in a loop here or by a helper): which
						// checks ran before an accepting return is not decided; what is decided
						// is that one of the closures validates a value of the field's type
						if closureTableValidates(v, st.Field(i).Type()) {
							continue
						}
					}
					key := moduleOf(funcPkgPath(f)) + "|" + st.Field(i).Name()
					pos := cx.P.Pos(v.Pos())
					if where != nil {
						pos = cx.P.Pos(where.Pos())
					}
					r.check(ok, "coin-param-validated", key, pos, "every accepting path of the parameter validation establishes the validity (denom and amount) of the coin-typed parameter "+st.Field(i).Name(), "the parameter validation accepts "+st.Field(i).Name()+" without establishing the coin's validity (IsValid / Validate / ValidateDenom): a stored fee with a malformed denom makes the fee handler's coin constructors panic in every message that charges it")
				}
			}
		}
	}
	if n == 0 {
		r.toolErr("no coin-typed parameter found behind any keeper SetParams (4 confirmed)")
	}
}

func isSdkCoinType(t types.Type) bool {
	n, ok := t.(*types.Named)
	if !ok || n.Obj().Pkg() == nil {
		return false
	}
	return n.Obj().Pkg().Path() == "github.com/cosmos/cosmos-sdk/types" && (n.Obj().Name() == "Coin" || n.Obj().Name() == "Coins")
}

// isFieldOf: x is field idx of the record held by param (a value parameter, its spill
// slot, or a pointer parameter).
func isFieldOf(x ssa.Value, param ssa.Value, idx int) bool {
	isParam := func(v ssa.Value) bool {
		if v == param {
			return true
		}
		if u, ok := v.(*ssa.UnOp); ok && u.Op == token.MUL {
			v = u.X
		}
		if al, ok := v.(*ssa.Alloc); ok {
			for _, ref := range *al.Referrers() {
				if st, ok := ref.(*ssa.Store); ok && st.Addr == al && st.Val == param {
					return true
				}
			}
		}
		return false
	}
	switch y := x.(type) {
	case *ssa.Field:
		return y.Field == idx && isParam(y.X)
	case *ssa.UnOp:
		if y.Op == token.MUL {
			if fa, ok := y.X.(*ssa.FieldAddr); ok {
				return fa.Field == idx && isParam(fa.X)
			}
		}
	}
	return false
}

// validOnAccept: on every accepting return of fn the subject's validity is established.
func validOnAccept(fn *ssa.Function, subj func(ssa.Value) bool, depth int) (bool, ssa.Instruction) {
	if depth > 3 || fn.Blocks == nil {
		return false, nil
	}
	// a value whose address is taken (v.Amount.IsNegative()) lives in a local slot:
	// a load of a slot that only ever holds the subject is the subject
	direct := subj
	subj = func(x ssa.Value) bool {
		if direct(x) {
			return true
		}
		if u, ok := x.(*ssa.UnOp); ok && u.Op == token.MUL {
			if al, ok := u.X.(*ssa.Alloc); ok {
				n := 0
				for _, ref := range *al.Referrers() {
					if st, ok := ref.(*ssa.Store); ok && st.Addr == al {
						if !direct(st.Val) {
							return false
						}
						n++
					}
				}
				return n > 0
			}
		}
		return false
	}
	strip := func(v ssa.Value) ssa.Value {
		for {
			switch y := v.(type) {
			case *ssa.MakeInterface:
				v = y.X
			case *ssa.ChangeType:
				v = y.X
			default:
				return v
			}
		}
	}
	// does this call (already known to have succeeded) establish validity?
	var callValidates func(c *ssa.Call) bool
	callValidates = func(c *ssa.Call) bool {
		callee := c.Common().StaticCallee()
		if callee == nil {
			return false
		}
		args := c.Common().Args
		if callee.Signature.Recv() != nil && (callee.Name() == "Validate" || callee.Name() == "IsValid") && len(args) > 0 && subj(strip(args[0])) && isSdkCoinType(derefT(callee.Signature.Recv().Type())) {
			return true
		}
		if callee.Name() == "ValidateDenom" && len(args) == 1 {
			switch d := args[0].(type) {
			case *ssa.Field:
				if subj(d.X) {
					return true
				}
			case *ssa.UnOp:
				if fa, ok := d.X.(*ssa.FieldAddr); ok {
					if al, ok := fa.X.(*ssa.Alloc); ok {
						for _, ref := range *al.Referrers() {
							if st, ok := ref.(*ssa.Store); ok && st.Addr == al && subj(st.Val) {
								return true
							}
						}
					}
				}
			}
			return false
		}
		if !strings.HasPrefix(funcPkgPath(callee), modPrefix) {
			return false
		}
		for i, a := range args {
			if !subj(strip(a)) || i >= len(callee.Params) {
				continue
			}
			p := callee.Params[i]
			inner := func(x ssa.Value) bool {
				if x == p {
					return true
				}
				// v, ok := i.(sdk.Coin) / v := i.(sdk.Coin)
				if ex, ok := x.(*ssa.Extract); ok && ex.Index == 0 {
					if ta, ok := ex.Tuple.(*ssa.TypeAssert); ok && ta.X == p {
						return true
					}
				}
				if ta, ok := x.(*ssa.TypeAssert); ok && ta.X == p && !ta.CommaOk {
					return true
				}
				// v, err := paramAs[sdk.Coin](i): a typed view of the raw value handed out by a helper
				if ex, ok := x.(*ssa.Extract); ok && ex.Index == 0 && isSdkCoinType(ex.Type()) {
					if cc, ok := ex.Tuple.(*ssa.Call); ok {
						for _, a := range cc.Common().Args {
							if a == p {
								return true
							}
						}
					}
				}
				return false
			}
			if ok, _ := validOnAccept(callee, inner, depth+1); ok {
				return true
			}
		}
		return false
	}
	factValidates := func(df Fact) bool {
		switch c := df.Cond.(type) {
		case *ssa.Call:
			// IsValid() as a condition
			return df.Holds && c.Common().StaticCallee() != nil && c.Common().StaticCallee().Name() == "IsValid" && callValidates(c)
		case *ssa.BinOp:
			if c.Op != token.NEQ && c.Op != token.EQL {
				return false
			}
			var call *ssa.Call
			for _, side := range []ssa.Value{c.X, c.Y} {
				if cc, ok := side.(*ssa.Call); ok {
					call = cc
				}
			}
			other := c.Y
			if call == c.Y {
				other = c.X
			}
			k, isK := other.(*ssa.Const)
			if call == nil || !isK || !k.IsNil() {
				return false
			}
			errIsNil := (c.Op == token.EQL) == df.Holds
			return errIsNil && callValidates(call)
		}
		return false
	}
	for _, b := range fn.Blocks {
		ret, ok := b.Instrs[len(b.Instrs)-1].(*ssa.Return)
		if !ok || len(ret.Results) == 0 {
			continue
		}
		res := ret.Results[len(ret.Results)-1]
		accept := false
		if k, ok := res.(*ssa.Const); ok && k.IsNil() {
			accept = true
		}
		if c, ok := res.(*ssa.Call); ok {
			if callee := c.Common().StaticCallee(); callee != nil && strings.HasPrefix(funcPkgPath(callee), modPrefix) {
				if callValidates(c) {
					continue // the last check is the subject's own validator
				}
				accept = true
			}
		}
		if !accept {
			continue
		}
		// `if err := f(x); err != nil { return err }` returns the call's value on the rejecting side
		rejecting := false
		for _, df := range dominatingFacts(b) {
			if bo, ok := df.Cond.(*ssa.BinOp); ok && (bo.X == res || bo.Y == res) {
				if (bo.Op == token.NEQ && df.Holds) || (bo.Op == token.EQL && !df.Holds) {
					rejecting = true
				}
			}
		}
		if rejecting {
			continue
		}
		valid := false
		for _, df := range dominatingFacts(b) {
			if factValidates(df) {
				valid = true
				break
			}
		}
		if !valid {
			return false, ret
		}
	}
	return true, nil
}

func derefT(t types.Type) types.Type {
	if p, ok := t.(*types.Pointer); ok {
		return p.Elem()
	}
	return t
}

// hasDynamicErrorCall: fn calls a function value (not a method, not a static callee)
// that returns an error.
func hasDynamicErrorCall(fn *ssa.Function) bool {
	for _, b := range fn.Blocks {
		for _, ins := range b.Instrs {
			c, ok := ins.(*ssa.Call)
			if !ok || c.Call.IsInvoke() || c.Call.StaticCallee() != nil {
				continue
			}
			if _, isB := c.Call.Value.(*ssa.Builtin); isB {
				continue
			}
			sig, ok := c.Call.Value.Type().Underlying().(*types.Signature)
			if ok && sig.Results().Len() > 0 && sig.Results().At(sig.Results().Len()-1).Type().String() == "error" {
				return true
			}
		}
	}
	return false
}

// closureTableValidates: one of fn's closures hands a value of type ft to a validator
// that establishes its validity, or calls IsValid / Validate on such a value.
func closureTableValidates(fn *ssa.Function, ft types.Type) bool {
	var fns []*ssa.Function
	var add func(f *ssa.Function)
	add = func(f *ssa.Function) {
		for _, a := range f.AnonFuncs {
			fns = append(fns, a)
			add(a)
		}
	}
	add(fn)
	for _, f := range fns {
		for _, b := range f.Blocks {
			for _, ins := range b.Instrs {
				c, ok := ins.(*ssa.Call)
				if !ok {
					continue
				}
				callee := c.Common().StaticCallee()
				if callee == nil {
					continue
				}
				for i, a := range c.Common().Args {
					x := a
					if mi, ok := x.(*ssa.MakeInterface); ok {
						x = mi.X
					}
					if !types.Identical(x.Type(), ft) {
						continue
					}
					if callee.Signature.Recv() != nil && i == 0 && (callee.Name() == "Validate" || callee.Name() == "IsValid") {
						return true
					}
					if !strings.HasPrefix(funcPkgPath(callee), modPrefix) || i >= len(callee.Params) {
						continue
					}
					p := callee.Params[i]
					inner := func(v ssa.Value) bool {
						if v == p {
							return true
						}
						if ex, ok := v.(*ssa.Extract); ok && ex.Index == 0 {
							if ta, ok := ex.Tuple.(*ssa.TypeAssert); ok && ta.X == p {
								return true
							}
							if cc, ok := ex.Tuple.(*ssa.Call); ok && isSdkCoinType(ex.Type()) {
								for _, a2 := range cc.Common().Args {
									if a2 == p {
										return true
									}
								}
							}
						}
						if ta, ok := v.(*ssa.TypeAssert); ok && ta.X == p && !ta.CommaOk {
							return true
						}
						return false
					}
					if ok, _ := validOnAccept(callee, inner, 1); ok {
						return true
					}
				}
			}
		}
	}
	return false
}
