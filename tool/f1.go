package main

// F1 — nondeterminism sources on consensus paths (C11; reused by C12, C17, C18).

import (
	"fmt"
	"go/ast"
	"go/token"
	"go/types"
	"sort"
	"strings"

	"golang.org/x/tools/go/ssa"
)

var consensusRoles = []string{"msg", "abci", "genesis", "callback", "ante", "hook", "upgrade"}

func (cx *Ctx) consensusReach() *Reach {
	if cx.cReach == nil {
		cx.cReach = cx.Reachable(cx.entryFns(cx.EntriesOf(consensusRoles...)), nil)
	}
	return cx.cReach
}

// entry (anchored) that reaches fn, smallest in sorted order
func (cx *Ctx) reachingEntry(fn *ssa.Function) string {
	if cx.entryReach == nil {
		cx.entryReach = map[string]*Reach{}
	}
	best := ""
	for _, e := range cx.EntriesOf(consensusRoles...) {
		k := e.Role + ":" + e.Module + "." + e.Name
		r := cx.entryReach[k]
		if r == nil {
			r = cx.Reachable([]*ssa.Function{e.Fn}, nil)
			cx.entryReach[k] = r
		}
		if r.Has(fn) && (best == "" || k < best) {
			best = k
		}
	}
	return best
}

func isConsensusCode(cx *Ctx, f *ssa.Function) bool {
	p := funcPkgPath(f)
	if !strings.HasPrefix(p, modPrefix) {
		return false
	}
	r := pkgRole(p)
	if r == RoleNonConsensus {
		return false
	}
	if f.Pos().IsValid() && isGeneratedFile(cx.P.File(f.Pos())) {
		return false
	}
	if cx.isDoubleFunc(f) {
		return false
	}
	return true
}

var clockFuncs = map[string]bool{"Now": true, "Since": true, "Until": true, "After": true, "Tick": true, "NewTimer": true, "Sleep": true, "NewTicker": true, "AfterFunc": true}

type ndSite struct {
	kind   string // clock | rand | os
	callee string
	fn     *ssa.Function
	call   ssa.CallInstruction
}

func (cx *Ctx) ndCallSites() []ndSite {
	var out []ndSite
	for _, f := range cx.P.AllFuncs {
		if f.Pos().IsValid() && isGeneratedFile(cx.P.File(f.Pos())) {
			continue
		}
		for _, b := range f.Blocks {
			for _, ins := range b.Instrs {
				ci, ok := ins.(ssa.CallInstruction)
				if !ok {
					continue
				}
				c := ci.Common()
				if c.IsInvoke() {
					continue
				}
				pkg, name := calleeName(c)
				if name == "init" {
					continue // package initialisation order edge, not a call of the API
				}
				switch {
				case pkg == "time" && clockFuncs[name]:
					out = append(out, ndSite{"clock", "time." + name, f, ci})
				case pkg == "crypto/rand":
					out = append(out, ndSite{"rand", "crypto/rand." + name, f, ci})
				case (pkg == "math/rand" || pkg == "math/rand/v2") && !strings.Contains(name, "."):
					out = append(out, ndSite{"rand", pkg + "." + name, f, ci})
				case pkg == "os" || pkg == "os/exec" || pkg == "net" || pkg == "net/http" || pkg == "io/ioutil" || pkg == "syscall" || pkg == "os/signal":
					if pkg == "os" && (name == "Exit" || strings.HasPrefix(name, "File.") || strings.HasPrefix(name, "ProcessState.")) {
						continue
					}
					out = append(out, ndSite{"os", pkg + "." + name, f, ci})
				}
			}
		}
	}
	return out
}

// consequentialUse follows the result of a call forward and reports the first
// use that is more than logging/telemetry ("" if none).
func (cx *Ctx) consequentialUse(v ssa.Value) string {
	seen := map[ssa.Value]bool{}
	var walk func(v ssa.Value, depth int) string
	walk = func(v ssa.Value, depth int) string {
		if v == nil || seen[v] || depth > 30 {
			return ""
		}
		seen[v] = true
		refs := v.Referrers()
		if refs == nil {
			return ""
		}
		for _, ref := range *refs {
			switch x := ref.(type) {
			case *ssa.If:
				return "branch condition at " + cx.P.Pos(x.Pos())
			case *ssa.Return:
				return "returned at " + cx.P.Pos(x.Pos())
			case *ssa.Store:
				if x.Val == v {
					base := allocBase(x.Addr)
					if base == nil {
						return "stored to non-local memory at " + cx.P.Pos(x.Pos())
					}
					if s := walk(base, depth+1); s != "" {
						return s
					}
				}
			case *ssa.MapUpdate:
				return "stored into a map at " + cx.P.Pos(x.Pos())
			case *ssa.Send:
				return "sent on a channel at " + cx.P.Pos(x.Pos())
			case *ssa.DebugRef:
			case ssa.CallInstruction:
				c := x.Common()
				pkg, name := calleeName(c)
				if isLoggerCall(c, pkg, name) {
					continue
				}
				if k := cx.classifyCall(x); k != "" {
					return "argument of " + k + " at " + cx.P.Pos(x.Pos())
				}
				if f := c.StaticCallee(); f != nil && isIrismodFunc(f) {
					return "passed to " + shortFn(f) + " at " + cx.P.Pos(x.Pos())
				}
				if val, ok := x.(ssa.Value); ok {
					if s := walk(val, depth+1); s != "" {
						return s
					}
				}
			default:
				if val, ok := ref.(ssa.Value); ok {
					if s := walk(val, depth+1); s != "" {
						return s
					}
				}
			}
		}
		return ""
	}
	return walk(v, 0)
}

func allocBase(addr ssa.Value) ssa.Value {
	for {
		switch x := addr.(type) {
		case *ssa.Alloc:
			return x
		case *ssa.IndexAddr:
			addr = x.X
		case *ssa.FieldAddr:
			addr = x.X
		default:
			return nil
		}
	}
}

func isLoggerCall(c *ssa.CallCommon, pkg, name string) bool {
	if pkg == "cosmossdk.io/log" && strings.HasPrefix(name, "Logger.") {
		return true
	}
	if strings.HasPrefix(pkg, "github.com/cosmos/cosmos-sdk/telemetry") || strings.HasPrefix(pkg, "github.com/hashicorp/go-metrics") {
		return true
	}
	return false
}

// ------------------------------------------------------------ map iteration

type mapRange struct {
	fn        *ssa.Function
	rng       *ssa.Range
	pos       token.Pos
	class     string // insensitive | events-only | sensitive
	reasons   []string
	features  []string
	mapOrigin string
}

func (cx *Ctx) mapRanges() []*mapRange {
	var out []*mapRange
	for _, f := range cx.P.AllFuncs {
		if f.Pos().IsValid() && isGeneratedFile(cx.P.File(f.Pos())) {
			continue
		}
		for _, b := range f.Blocks {
			for _, ins := range b.Instrs {
				rg, ok := ins.(*ssa.Range)
				if !ok {
					continue
				}
				if _, isMap := rg.X.Type().Underlying().(*types.Map); !isMap {
					continue
				}
				out = append(out, cx.classifyMapRange(f, rg))
			}
		}
	}
	return out
}

func derivesFrom(v ssa.Value, src map[ssa.Value]bool, depth int, seen map[ssa.Value]bool) bool {
	if v == nil || depth > 25 {
		return false
	}
	if src[v] {
		return true
	}
	if seen[v] {
		return false
	}
	seen[v] = true
	switch x := v.(type) {
	case *ssa.Const, *ssa.Global, *ssa.Parameter, *ssa.FreeVar, *ssa.Function, *ssa.Builtin:
		return false
	case *ssa.UnOp:
		if x.Op == token.MUL {
			// load: look at stores to the address
			if base := allocBase(x.X); base != nil {
				if refs := base.Referrers(); refs != nil {
					for _, r := range *refs {
						if st, ok := r.(*ssa.Store); ok && derivesFrom(st.Val, src, depth+1, seen) {
							return true
						}
						if fa, ok := r.(*ssa.FieldAddr); ok {
							for _, r2 := range *fa.Referrers() {
								if st, ok := r2.(*ssa.Store); ok && derivesFrom(st.Val, src, depth+1, seen) {
									return true
								}
							}
						}
						if ia, ok := r.(*ssa.IndexAddr); ok {
							for _, r2 := range *ia.Referrers() {
								if st, ok := r2.(*ssa.Store); ok && derivesFrom(st.Val, src, depth+1, seen) {
									return true
								}
							}
						}
					}
				}
				return false
			}
		}
	}
	if ins, ok := v.(ssa.Instruction); ok {
		for _, op := range ins.Operands(nil) {
			if op != nil && *op != nil && derivesFrom(*op, src, depth+1, seen) {
				return true
			}
		}
	}
	return false
}

func isErrorType(t types.Type) bool {
	n, ok := t.(*types.Named)
	return ok && n.Obj().Pkg() == nil && n.Obj().Name() == "error"
}

func (cx *Ctx) classifyMapRange(f *ssa.Function, rg *ssa.Range) *mapRange {
	mr := &mapRange{fn: f, rng: rg, pos: rg.Pos()}
	mr.mapOrigin = describeValue(rg.X)
	if !mr.pos.IsValid() {
		mr.pos = f.Pos()
	}
	var next *ssa.Next
	for _, r := range *rg.Referrers() {
		if n, ok := r.(*ssa.Next); ok {
			next = n
		}
	}
	if next == nil {
		mr.class = "sensitive"
		mr.reasons = append(mr.reasons, "range without next (unrecognised shape)")
		return mr
	}
	hb := next.Block()
	ifInstr, ok := hb.Instrs[len(hb.Instrs)-1].(*ssa.If)
	if !ok || len(hb.Succs) != 2 {
		mr.class = "sensitive"
		mr.reasons = append(mr.reasons, "unrecognised loop header")
		return mr
	}
	_ = ifInstr
	bodyEntry := hb.Succs[0]
	exit := hb.Succs[1]
	inBody := func(b *ssa.BasicBlock) bool {
		return bodyEntry.Dominates(b) && b != exit && !exit.Dominates(b) || b == bodyEntry
	}
	iterVals := map[ssa.Value]bool{}
	for _, r := range *next.Referrers() {
		if ex, ok := r.(*ssa.Extract); ok && ex.Index >= 1 {
			iterVals[ex] = true
		}
	}
	keyVals := map[ssa.Value]bool{}
	for _, r := range *next.Referrers() {
		if ex, ok := r.(*ssa.Extract); ok && ex.Index == 1 {
			keyVals[ex] = true
		}
	}
	stateful, events := 0, 0
	var body []*ssa.BasicBlock
	for _, b := range f.Blocks {
		if inBody(b) {
			body = append(body, b)
		}
	}
	resultsAllErr := true
	for i := 0; i < f.Signature.Results().Len(); i++ {
		if !isErrorType(f.Signature.Results().At(i).Type()) {
			resultsAllErr = false
		}
	}
	for _, b := range body {
		for _, ins := range b.Instrs {
			switch x := ins.(type) {
			case ssa.CallInstruction:
				kinds := map[string]bool{}
				if k := cx.classifyCall(x); k != "" {
					kinds[k] = true
				} else {
					for _, e := range cx.calleesOf(x) {
						if e.Callee.Blocks == nil {
							continue
						}
						for k := range cx.transPrimKinds(e.Callee) {
							kinds[k] = true
						}
					}
					// closures passed as arguments run on our behalf
					for _, a := range x.Common().Args {
						if fn := funcValueOf(a); fn != nil && fn.Blocks != nil {
							for k := range cx.transPrimKinds(fn) {
								kinds[k] = true
							}
						}
					}
				}
				var ks []string
				for k := range kinds {
					ks = append(ks, k)
				}
				sort.Strings(ks)
				for _, k := range ks {
					if k == "event" {
						events++
						continue
					}
					if k == "store.set" && cx.classifyCall(x) == "store.set" && derivesFrom(storeArgs(x)[0], keyVals, 0, map[ssa.Value]bool{}) {
						mr.features = append(mr.features, "store write keyed by the range key")
						continue
					}
					// a store write via an irismod helper whose key derives from range key
					if strings.HasPrefix(k, "store.set") || strings.HasPrefix(k, "store.delete") {
						keyed := false
						for _, a := range x.Common().Args {
							if derivesFrom(a, keyVals, 0, map[ssa.Value]bool{}) {
								keyed = true
							}
						}
						if keyed && onlyWrites(kinds) {
							mr.features = append(mr.features, "keyed write through "+callName(x))
							continue
						}
					}
					// a store read keyed by the range key sees, of this loop's writes, only its
					// own iteration's (the other iterations write under other keys - the same
					// reasoning that makes the keyed writes order-free)
					if k == "store.get" || k == "store.has" {
						keyed := false
						for _, a := range x.Common().Args {
							if derivesFrom(a, keyVals, 0, map[ssa.Value]bool{}) {
								keyed = true
							}
						}
						if keyed && onlyReads(kinds) {
							mr.features = append(mr.features, "keyed read through "+callName(x))
							continue
						}
					}
					stateful++
					mr.reasons = append(mr.reasons, fmt.Sprintf("%s at %s reaches %s", callName(x), cx.P.Pos(x.Pos()), k))
				}
			case *ssa.Return:
				// early return from inside the loop
				nonErr := false
				nres := f.Signature.Results().Len()
				if nres > 0 && isErrorType(f.Signature.Results().At(nres-1).Type()) {
					if c, ok := x.Results[nres-1].(*ssa.Const); !ok || !c.IsNil() {
						// a failure exit: the other results are not observed
						mr.features = append(mr.features, "early error return")
						continue
					}
				}
				for i, res := range x.Results {
					if isErrorType(f.Signature.Results().At(i).Type()) {
						continue
					}
					if c, ok := res.(*ssa.Const); ok && (c.IsNil() || c.Value == nil || isZeroConst(c)) {
						continue
					}
					nonErr = true
				}
				if nonErr || !resultsAllErr && len(x.Results) > 0 && hasNonConstNonErr(f, x) {
					mr.reasons = append(mr.reasons, "returns a value from inside the loop at "+cx.P.Pos(x.Pos())+" (first match wins)")
					mr.features = append(mr.features, "early value return")
				} else {
					mr.features = append(mr.features, "early error return")
				}
			case *ssa.Store:
				base := allocBase(x.Addr)
				if base != nil && inBody(base.(*ssa.Alloc).Block()) {
					continue
				}
				if base == nil {
					// store through pointer / global / field
					if derivesFrom(x.Addr, iterVals, 0, map[ssa.Value]bool{}) {
						continue // writing into the element itself
					}
					mr.reasons = append(mr.reasons, "stores to non-local memory at "+cx.P.Pos(x.Pos()))
					continue
				}
				if iterVals[x.Val] && x.Addr == base && allLoadsIn(base, inBody) {
					continue // the loop variable itself, spilled to memory
				}
				cx.classifyAccum(mr, f, base, x.Val.Type(), hb, exit, inBody, x.Pos())
			case *ssa.MapUpdate:
				mr.features = append(mr.features, "fills a map")
			case *ssa.Go:
				mr.reasons = append(mr.reasons, "starts a goroutine")
			}
		}
		// break: successor outside body that is not the header
		for _, s := range b.Succs {
			if s != hb && !inBody(s) {
				if _, isRet := b.Instrs[len(b.Instrs)-1].(*ssa.Return); !isRet {
					mr.features = append(mr.features, "break")
					mr.reasons = append(mr.reasons, "breaks out of the loop at "+cx.P.Pos(b.Instrs[len(b.Instrs)-1].Pos())+" (first match wins)")
				}
			}
		}
	}
	// loop-carried phis in the header
	for _, ins := range hb.Instrs {
		phi, ok := ins.(*ssa.Phi)
		if !ok {
			continue
		}
		cx.classifyAccum(mr, f, phi, phi.Type(), hb, exit, inBody, phi.Pos())
	}
	switch {
	case len(mr.reasons) > 0:
		mr.class = "sensitive"
	case events > 0:
		mr.class = "events-only"
	default:
		mr.class = "insensitive"
	}
	_ = stateful
	return mr
}

// allLoadsIn: every read of the alloc (directly or through field/index
// addresses) happens inside the loop body.
func allLoadsIn(base ssa.Value, inBody func(*ssa.BasicBlock) bool) bool {
	ok := true
	var visit func(v ssa.Value)
	visit = func(v ssa.Value) {
		if v.Referrers() == nil {
			return
		}
		for _, r := range *v.Referrers() {
			switch x := r.(type) {
			case *ssa.Store:
				if x.Addr != v {
					ok = false // address escapes
				}
			case *ssa.FieldAddr:
				visit(x)
			case *ssa.IndexAddr:
				visit(x)
			case *ssa.DebugRef:
			default:
				if !inBody(r.Block()) {
					ok = false
				}
			}
		}
	}
	visit(base)
	return ok
}

func onlyReads(k map[string]bool) bool {
	for x := range k {
		if x != "store.get" && x != "store.has" {
			return false
		}
	}
	return true
}

func onlyWrites(k map[string]bool) bool {
	for x := range k {
		if x != "store.set" && x != "store.delete" && x != "event" {
			return false
		}
	}
	return true
}

func hasNonConstNonErr(f *ssa.Function, r *ssa.Return) bool {
	for i, res := range r.Results {
		if isErrorType(f.Signature.Results().At(i).Type()) {
			continue
		}
		if _, ok := res.(*ssa.Const); !ok {
			return true
		}
	}
	return false
}

func isZeroConst(c *ssa.Const) bool {
	if c.Value == nil {
		return true
	}
	s := c.Value.ExactString()
	return s == "0" || s == "false" || s == `""`
}

var pkgShort = map[string]string{
	"github.com/cosmos/cosmos-sdk/types":        "sdk",
	"cosmossdk.io/math":                         "math",
	"cosmossdk.io/x/nft/keeper":                 "sdknft",
	"cosmossdk.io/errors":                       "errorsmod",
	"github.com/cosmos/cosmos-sdk/types/errors": "sdkerrors",
	"github.com/cosmos/cosmos-sdk/codec":        "codec",
	"github.com/cosmos/cosmos-sdk/codec/types":  "codectypes",
	"cosmossdk.io/store/types":                  "storetypes",
}

func callName(ci ssa.CallInstruction) string {
	pkg, name := calleeName(ci.Common())
	if s, ok := pkgShort[pkg]; ok {
		return s + "." + name
	}
	if strings.HasPrefix(pkg, modPrefix) {
		pkg = strings.TrimPrefix(pkg, modPrefix+"modules/")
		pkg = strings.TrimPrefix(pkg, modPrefix)
	} else if i := strings.LastIndex(pkg, "/"); i >= 0 {
		pkg = pkg[i+1:]
	}
	if pkg == "" {
		return name
	}
	return pkg + "." + name
}

// classifyAccum judges a value that outlives the loop (a header phi or an
// outer variable assigned in the body).
func (cx *Ctx) classifyAccum(mr *mapRange, f *ssa.Function, acc ssa.Value, t types.Type, hb, exit *ssa.BasicBlock, inBody func(*ssa.BasicBlock) bool, pos token.Pos) {
	if p, ok := t.(*types.Pointer); ok {
		if _, isAlloc := acc.(*ssa.Alloc); isAlloc {
			t = p.Elem()
		}
	}
	if a, ok := acc.(*ssa.Alloc); ok {
		t = a.Type().(*types.Pointer).Elem()
	}
	switch u := t.Underlying().(type) {
	case *types.Map:
		mr.features = append(mr.features, "accumulates into a map")
		return
	case *types.Basic:
		if u.Info()&types.IsBoolean != 0 {
			mr.features = append(mr.features, "boolean flag")
			return
		}
		if u.Info()&types.IsInteger != 0 {
			mr.features = append(mr.features, "integer accumulator")
			return
		}
		if u.Info()&types.IsString != 0 {
			// string built across iterations
			mr.reasons = append(mr.reasons, "builds a string across iterations at "+cx.P.Pos(pos))
			return
		}
		if u.Info()&types.IsFloat != 0 {
			mr.reasons = append(mr.reasons, "accumulates a float across iterations at "+cx.P.Pos(pos)+" (float addition is not associative)")
			return
		}
	case *types.Interface:
		if isErrorType(t) {
			mr.features = append(mr.features, "error accumulator")
			return
		}
	case *types.Slice:
		if cx.sortedBeforeUse(f, acc, hb, inBody) {
			mr.features = append(mr.features, "slice sorted before any other use")
			return
		}
		mr.reasons = append(mr.reasons, "appends to a slice that is used unsorted after the loop, at "+cx.P.Pos(pos))
		return
	case *types.Tuple:
		return
	}
	if _, ok := acc.(*ssa.Phi); ok {
		// iterator state or other carried value of unknown kind
		if strings.Contains(t.String(), "iter") {
			return
		}
	}
	mr.reasons = append(mr.reasons, fmt.Sprintf("carries a value of type %s across iterations at %s", t, cx.P.Pos(pos)))
}

// sortedBeforeUse: outside the loop body every use of the accumulated slice is
// a sort call or is dominated by one.
func (cx *Ctx) sortedBeforeUse(f *ssa.Function, acc ssa.Value, hb *ssa.BasicBlock, inBody func(*ssa.BasicBlock) bool) bool {
	type use struct {
		ins ssa.Instruction
		v   ssa.Value
	}
	var uses []use
	seen := map[ssa.Value]bool{}
	var collect func(v ssa.Value)
	collect = func(v ssa.Value) {
		if seen[v] {
			return
		}
		seen[v] = true
		if v.Referrers() == nil {
			return
		}
		for _, r := range *v.Referrers() {
			if inBody(r.Block()) {
				continue
			}
			switch x := r.(type) {
			case *ssa.Phi:
				collect(x)
			case *ssa.UnOp:
				if x.Op == token.MUL {
					collect(x)
					continue
				}
				uses = append(uses, use{r, v})
			case *ssa.Store:
				if x.Addr == v {
					continue
				}
				uses = append(uses, use{r, v})
			case *ssa.MakeInterface, *ssa.ChangeType, *ssa.Convert:
				collect(x.(ssa.Value))
			case *ssa.DebugRef:
			case *ssa.MakeClosure:
				// the comparator handed to the sort call captures the slice variable
				cmpOnly := x.Referrers() != nil && len(*x.Referrers()) > 0
				if cmpOnly {
					for _, cr := range *x.Referrers() {
						ci, ok := cr.(ssa.CallInstruction)
						if !ok || !isSortCall(ci) {
							cmpOnly = false
						}
					}
				}
				if !cmpOnly {
					uses = append(uses, use{r, v})
				}
			default:
				uses = append(uses, use{r, v})
			}
		}
	}
	collect(acc)
	var sorts []ssa.Instruction
	for _, u := range uses {
		if ci, ok := u.ins.(ssa.CallInstruction); ok {
			if isSortCall(ci) {
				sorts = append(sorts, u.ins)
			}
		}
	}
	if len(sorts) == 0 {
		return false
	}
	for _, u := range uses {
		isSort := false
		for _, s := range sorts {
			if s == u.ins {
				isSort = true
			}
		}
		if isSort {
			continue
		}
		// len(x) == 0 checks before sorting are harmless
		if ci, ok := u.ins.(ssa.CallInstruction); ok {
			if b, ok := ci.Common().Value.(*ssa.Builtin); ok && (b.Name() == "len" || b.Name() == "cap") {
				continue
			}
		}
		dominated := false
		for _, s := range sorts {
			if s.Block() == u.ins.Block() {
				if instrIndex(s) < instrIndex(u.ins) {
					dominated = true
				}
			} else if s.Block().Dominates(u.ins.Block()) {
				dominated = true
			}
		}
		if !dominated {
			return false
		}
	}
	return true
}

func isSortCall(ci ssa.CallInstruction) bool {
	pkg, name := calleeName(ci.Common())
	return (pkg == "sort" && (name == "Strings" || name == "Slice" || name == "SliceStable" || name == "Sort" || name == "Stable" || name == "Ints")) ||
		(pkg == "slices" && strings.HasPrefix(name, "Sort"))
}

func instrIndex(ins ssa.Instruction) int {
	for i, x := range ins.Block().Instrs {
		if x == ins {
			return i
		}
	}
	return -1
}

func describeValue(v ssa.Value) string {
	switch x := v.(type) {
	case *ssa.UnOp:
		if x.Op == token.MUL {
			return describeValue(x.X)
		}
	case *ssa.FieldAddr:
		return "field " + fieldName(x)
	case *ssa.Field:
		t := x.X.Type()
		if st, ok := t.Underlying().(*types.Struct); ok {
			n := ""
			if nn := namedOf(t); nn != nil {
				n = nn.Obj().Name() + "."
			}
			return "field " + n + st.Field(x.Field).Name()
		}
	case *ssa.Global:
		return "global " + x.Name()
	case *ssa.Parameter:
		return "parameter " + x.Name()
	case *ssa.Call:
		return "result of " + callName(x)
	case *ssa.MakeMap:
		return "local map"
	case *ssa.Extract:
		if _, ok := x.Tuple.(*ssa.Next); ok {
			return "range value"
		}
	case *ssa.Alloc:
		return "local " + x.Comment
	case *ssa.Phi:
		return "local " + x.Comment
	}
	return fmt.Sprintf("%T", v)
}

// ------------------------------------------------------------ C11

func init() { register("C11", true, true, "other", runC11) }

// keyCounter makes construct keys unique: identical keys get #2, #3 in position order.
type keyCounter map[string]int

func (kc keyCounter) next(k string) string {
	kc[k]++
	if kc[k] == 1 {
		return k
	}
	return fmt.Sprintf("%s#%d", k, kc[k])
}

func runC11(cx *Ctx, r *Report) {
	r.Explanation = "F1, exhaustive site enumeration over every irismod function (type-checked SSA): ND1 host-clock calls, ND2 unseeded/global randomness, ND3 every range over a map (loop body classified from its SSA: state-touching calls, early value returns, values carried out of the loop and whether slices are sorted before use), ND4 goroutines/select/channel operations, ND5 FMA-fusable float expressions (x*y±z on floats without an explicit conversion), ND6 run-time writes to package-level variables and keeper-held maps, ND7 environment/file/network access. A site is a violation when it is reachable in the call graph (static calls, interface invokes resolved to irismod implementers, function values by signature, closures) from a msg/abci/genesis/callback/ante/hook/upgrade entry point and its value reaches more than a logger, or when a package-level variable initialised from such a source is read on such a path. Decides the structural part of determinism (no nondeterministic source feeds consensus code); it does not execute anything and does not judge third-party code."
	r.Assumptions = []string{"third-party dependencies (Cosmos SDK, CometBFT, store iteration order) are deterministic", "floating-point results are identical across replicas except where the Go spec permits fusing (ND5)", "query handlers are not consensus paths"}
	reach := cx.consensusReach()
	processLivedCx = cx
	kc := keyCounter{}
	// ND1/ND2/ND7
	sites := cx.ndCallSites()
	sort.SliceStable(sites, func(i, j int) bool { return cx.P.Pos(sites[i].call.Pos()) < cx.P.Pos(sites[j].call.Pos()) })
	for _, s := range sites {
		pos := cx.P.Pos(s.call.Pos())
		mod := moduleOf(funcPkgPath(s.fn))
		if mod == "" {
			mod = strings.TrimPrefix(funcPkgPath(s.fn), modPrefix)
		}
		rule := map[string]string{"clock": "ND1-clock", "rand": "ND2-rand", "os": "ND7-os"}[s.kind]
		if !isConsensusCode(cx, s.fn) {
			r.ok(rule, mod+"|"+s.callee+"|non-consensus", pos, s.callee+" in non-consensus code ("+shortFn(s.fn)+"): client / simulation / test helper role")
			continue
		}
		// package initialiser: value stored into a global?
		if s.fn.Synthetic == "package initializer" || s.fn.Name() == "init" {
			globals := cx.globalsFedBy(s.call)
			found := false
			for _, g := range globals {
				readers := cx.readersOf(g, reach)
				if len(readers) > 0 {
					found = true
					key := kc.next(fmt.Sprintf("%s|%s|init→%s", mod, s.callee, g.Name()))
					r.violate(rule, key, pos, fmt.Sprintf("package variable %s is initialised from %s and read on a consensus path: %s [%s]", g.Name(), s.callee, shortFn(readers[0]), reach.Path(readers[0])))
				}
			}
			if !found {
				r.ok(rule, mod+"|"+s.callee+"|init", pos, s.callee+" in a package initialiser; the initialised variables are not read on any consensus path")
			}
			continue
		}
		if !reach.Has(s.fn) {
			r.ok(rule, mod+"|"+s.callee+"|unreachable", pos, s.callee+" in "+shortFn(s.fn)+" is not reachable from any consensus entry point")
			continue
		}
		if s.kind == "rand" && (strings.HasSuffix(s.callee, ".New") || strings.HasSuffix(s.callee, ".NewSource")) {
			// seeded generator: the seed must not come from an ND source
			if bad := cx.ndInSlice(s.call); bad != "" {
				key := kc.next(fmt.Sprintf("%s|%s|seed", mod, s.callee))
				r.violate(rule, key, pos, "generator seeded from "+bad)
			} else {
				r.ok(rule, mod+"|"+s.callee+"|seeded", pos, s.callee+" is seeded from values with no clock/randomness source in their backward slice")
			}
			continue
		}
		use := "value unused"
		if v, ok := s.call.(ssa.Value); ok {
			use = cx.consequentialUse(v)
		}
		if s.kind == "clock" && use == "" {
			r.ok(rule, mod+"|"+s.callee+"|log-only", pos, s.callee+" in "+shortFn(s.fn)+": the value flows only into logger/telemetry calls")
			continue
		}
		key := kc.next(fmt.Sprintf("%s|%s|%s", mod, s.callee, cx.reachingEntry(s.fn)))
		r.violate(rule, key, pos, fmt.Sprintf("%s on a consensus path, used as %s; path: %s", s.callee, use, reach.Path(s.fn)))
	}
	// ND3
	for _, mr := range cx.mapRanges() {
		pos := cx.P.Pos(mr.pos)
		mod := moduleOf(funcPkgPath(mr.fn))
		if !isConsensusCode(cx, mr.fn) {
			continue
		}
		feat := strings.Join(uniq(mr.features), "; ")
		switch mr.class {
		case "insensitive":
			r.ok("ND3-map-order", mod+"|"+mr.mapOrigin+"|"+anchorOf(cx, mr.fn), pos, "range over "+mr.mapOrigin+" in "+shortFn(mr.fn)+" is order-insensitive: "+feat)
			continue
		case "events-only":
			r.ok("ND3-map-order", mod+"|"+mr.mapOrigin+"|events", pos, "range over "+mr.mapOrigin+" in "+shortFn(mr.fn)+" only emits events (not one of the property's observables); "+feat)
			continue
		}
		if !reach.Has(mr.fn) {
			r.ok("ND3-map-order", mod+"|"+mr.mapOrigin+"|unreachable", pos, "order-sensitive range in "+shortFn(mr.fn)+" is not reachable from a consensus entry point ("+strings.Join(mr.reasons, "; ")+")")
			continue
		}
		if why, ok := cx.singleRegistrantException(mr); ok {
			r.ok("ND3-map-order", mod+"|"+mr.mapOrigin+"|single-registrant", pos, "first-match range over "+mr.mapOrigin+": "+why)
			continue
		}
		key := kc.next(fmt.Sprintf("%s|%s|%s", mod, mr.mapOrigin, cx.reachingEntry(mr.fn)))
		r.violate("ND3-map-order", key, pos, fmt.Sprintf("range over map (%s) in %s is order-sensitive: %s; path: %s", mr.mapOrigin, shortFn(mr.fn), strings.Join(mr.reasons, "; "), reach.Path(mr.fn)))
	}
	// ND4, ND6 over reachable consensus functions
	nFn := 0
	nMut := 0
	for _, f := range reach.Order {
		if f.Blocks == nil || !isConsensusCode(cx, f) {
			continue
		}
		nFn++
		mod := moduleOf(funcPkgPath(f))
		for _, b := range f.Blocks {
			for _, ins := range b.Instrs {
				switch x := ins.(type) {
				case *ssa.Go:
					r.violate("ND4-concurrency", kc.next(mod+"|go|"+cx.reachingEntry(f)), cx.P.Pos(x.Pos()), "goroutine started on a consensus path: "+reach.Path(f))
				case *ssa.Select:
					r.violate("ND4-concurrency", kc.next(mod+"|select|"+cx.reachingEntry(f)), cx.P.Pos(x.Pos()), "select on a consensus path: "+reach.Path(f))
				case *ssa.Send:
					r.violate("ND4-concurrency", kc.next(mod+"|send|"+cx.reachingEntry(f)), cx.P.Pos(x.Pos()), "channel send on a consensus path: "+reach.Path(f))
				case *ssa.UnOp:
					if x.Op == token.ARROW {
						r.violate("ND4-concurrency", kc.next(mod+"|recv|"+cx.reachingEntry(f)), cx.P.Pos(x.Pos()), "channel receive on a consensus path: "+reach.Path(f))
					}
				case *ssa.Store:
					if g := globalBase(x.Addr); g != nil && strings.HasPrefix(g.Pkg.Pkg.Path(), modPrefix) {
						cx.nd6(r, kc, f, reach, x.Pos(), "package variable "+g.Name(), x.Val, mod)
					}
				case *ssa.MapUpdate:
					if d := processLocalMap(x.Map); d != "" {
						cx.nd6(r, kc, f, reach, x.Pos(), d, nil, mod)
					}
				case *ssa.Call:
					// ND6 through an address: a package variable handed by address to a callee
					// (a pointer-receiver method called on the variable) that writes through it
					if cc := x.Common(); !cc.IsInvoke() {
						if g := cc.StaticCallee(); g != nil && g.Blocks != nil && isIrismodFunc(g) {
							for i, a := range cc.Args {
								if _, isPtr := a.Type().Underlying().(*types.Pointer); !isPtr {
									continue
								}
								if _, isLoad := a.(*ssa.UnOp); isLoad {
									continue // a pointer VALUE kept in a variable, not the variable's address
								}
								gv := globalBase(a)
								if gv == nil || gv.Pkg == nil || gv.Pkg.Pkg == nil || !strings.HasPrefix(gv.Pkg.Pkg.Path(), modPrefix) {
									continue
								}
								if at := writesThroughParam(g, i, 0, map[*ssa.Function]bool{}); at != nil {
									cx.nd6(r, kc, f, reach, x.Pos(), "package variable "+gv.Name()+" (written through its address by "+shortFn(g)+" at "+cx.P.Pos(at.Pos())+")", nil, mod)
								}
							}
						}
					}
					// ND8: arithmetic that overwrites its receiver (LegacyDec.*Mut, big.Int setters)
					// applied to a value this function did not create: math.Int / LegacyDec / Coin
					// copies share one *big.Int, so the owner of the value - a keeper-held registry,
					// a stored parameter, the caller's coin - changes under it for the rest of the
					// process lifetime
					if what := processStateCall(x, true); what != "" {
						cx.nd6(r, kc, f, reach, x.Pos(), what, nil, mod)
					}
					if m, recv := inPlaceMutator(x); m != "" {
						nMut++
						if !cx.freshNumber(recv, 0, map[ssa.Value]bool{}) {
							r.violate("ND8-shared-number-mutated", kc.next(mod+"|"+m+"|"+cx.reachingEntry(f)), cx.P.Pos(x.Pos()), "in-place arithmetic "+m+" on "+describeValue(recv)+", a value that "+shortFn(f)+" did not create (a parameter, field, map element or shared pointer): every copy of that number, including process-local state it was read from, silently changes - results then depend on how often this process ran the path; "+reach.Path(f))
						}
					}
				}
			}
		}
	}
	r.Extra["consensus_functions_scanned"] = nFn
	r.ok("ND4-concurrency", "scan", "", fmt.Sprintf("%d reachable consensus functions scanned for go/select/send/receive", nFn))
	r.ok("ND6-process-state", "scan", "", fmt.Sprintf("%d reachable consensus functions scanned for stores to package variables and keeper-held maps", nFn))
	r.ok("ND8-shared-number-mutated", "scan", "", fmt.Sprintf("%d reachable consensus functions scanned; %d receiver-overwriting arithmetic calls, each on a number created in the same function", nFn, nMut))
	// ND5 over syntax of consensus packages
	nFloat := 0
	for _, pk := range cx.P.Pkgs {
		if pkgRole(pk.PkgPath) == RoleNonConsensus {
			continue
		}
		for _, file := range pk.Syntax {
			fname := cx.P.Fset.Position(file.Pos()).Filename
			if isGeneratedFile(fname) || strings.HasSuffix(fname, "_test.go") {
				continue
			}
			ast.Inspect(file, func(n ast.Node) bool {
				be, ok := n.(*ast.BinaryExpr)
				if !ok || (be.Op != token.ADD && be.Op != token.SUB) {
					return true
				}
				tv, ok := pk.TypesInfo.Types[be]
				if !ok {
					return true
				}
				if b, ok := tv.Type.Underlying().(*types.Basic); !ok || b.Info()&types.IsFloat == 0 {
					return true
				}
				if tv.Value != nil {
					return true // constant expression
				}
				nFloat++
				for _, side := range []ast.Expr{be.X, be.Y} {
					for {
						p, ok := side.(*ast.ParenExpr)
						if !ok {
							break
						}
						side = p.X
					}
					if m, ok := side.(*ast.BinaryExpr); ok && m.Op == token.MUL {
						if mtv, ok := pk.TypesInfo.Types[m]; ok && mtv.Value == nil {
							r.violate("ND5-fma", kc.next(moduleOf(pk.PkgPath)+"|x*y±z"), cx.P.Pos(be.Pos()), "float expression x*y±z may be fused into an FMA on some architectures (Go spec); wrap the product in an explicit float64() conversion")
						}
					}
				}
				return true
			})
		}
	}
	r.ok("ND5-fma", "scan", "", fmt.Sprintf("%d float additions/subtractions in consensus packages inspected for a fusable product operand", nFloat))
	r.requireCount("ND1-clock", 5)
	r.requireCount("ND3-map-order", 9)
	cx.c11Controls(r)
}

func uniq(in []string) []string {
	m := map[string]bool{}
	var out []string
	for _, s := range in {
		if !m[s] {
			m[s] = true
			out = append(out, s)
		}
	}
	return out
}

// anchorOf gives a stable, externally anchored hint for a function: the
// smallest entry point reaching it, or its package when none does.
func anchorOf(cx *Ctx, f *ssa.Function) string {
	if e := cx.reachingEntry(f); e != "" {
		return e
	}
	return "pkg " + strings.TrimPrefix(funcPkgPath(f), modPrefix)
}

func globalBase(addr ssa.Value) *ssa.Global {
	for {
		switch x := addr.(type) {
		case *ssa.Global:
			return x
		case *ssa.IndexAddr:
			addr = x.X
		case *ssa.FieldAddr:
			addr = x.X
		case *ssa.UnOp:
			if x.Op == token.MUL {
				addr = x.X
				continue
			}
			return nil
		default:
			return nil
		}
	}
}

// processLocalMap: the map is held in a package variable or a keeper field.
func processLocalMap(m ssa.Value) string {
	switch x := m.(type) {
	case *ssa.UnOp:
		if x.Op == token.MUL {
			if g, ok := x.X.(*ssa.Global); ok {
				return "map in package variable " + g.Name()
			}
			if fa, ok := x.X.(*ssa.FieldAddr); ok {
				if rootIsParamOrRecv(fa.X) {
					return "map held in field " + fieldName(fa)
				}
			}
		}
	case *ssa.Field:
		if rootIsParamOrRecv(x.X) {
			t := x.X.Type()
			if st, ok := t.Underlying().(*types.Struct); ok {
				return "map held in field " + st.Field(x.Field).Name()
			}
		}
	}
	return ""
}

func rootIsParamOrRecv(v ssa.Value) bool {
	for {
		switch x := v.(type) {
		case *ssa.Parameter:
			// only receivers that outlive the call hold process-local state: keepers, modules,
			// servers, and types kept in package variables or in fields of those. A small
			// struct assembled inside the handler (a collector whose method is handed to an
			// iterator) lives for one call.
			if x.Parent().Signature.Recv() != nil && x.Parent().Params[0] == x {
				return processLivedType(x.Type())
			}
			return false
		case *ssa.FieldAddr:
			v = x.X
		case *ssa.Field:
			v = x.X
		case *ssa.Alloc:
			// spilled receiver: the alloc's whole-value store is the parameter
			var sv ssa.Value
			for _, r := range *x.Referrers() {
				if st, ok := r.(*ssa.Store); ok && st.Addr == x {
					sv = st.Val
				}
			}
			if sv == nil {
				return false
			}
			v = sv
		case *ssa.UnOp:
			if x.Op != token.MUL {
				return false
			}
			// spilled receiver: load of alloc that stores the parameter
			if a, ok := x.X.(*ssa.Alloc); ok {
				for _, r := range *a.Referrers() {
					if st, ok := r.(*ssa.Store); ok && st.Addr == a {
						v = st.Val
						goto next
					}
				}
				return false
			}
			v = x.X
		default:
			return false
		}
	next:
	}
}

func (cx *Ctx) nd6(r *Report, kc keyCounter, f *ssa.Function, reach *Reach, pos token.Pos, what string, val ssa.Value, mod string) {
	// constructors and init are allowed; they are not reachable from entry points
	// unless something is wrong. Reviewed exception: idempotent lazy initialisation
	// with a value of constant origin.
	if val != nil && constantOrigin(val, 0) {
		r.ok("ND6-process-state", mod+"|"+what+"|idempotent", cx.P.Pos(pos), "run-time store to "+what+" in "+shortFn(f)+" writes a value built from constants only (idempotent lazy initialisation)")
		return
	}
	key := kc.next(fmt.Sprintf("%s|%s|%s", mod, what, cx.reachingEntry(f)))
	r.violate("ND6-process-state", key, cx.P.Pos(pos), fmt.Sprintf("run-time write to process-local state (%s) on a consensus path: %s", what, reach.Path(f)))
}

// constantOrigin: the value is built only from constants, package functions of
// constants, and composite literals thereof.
func constantOrigin(v ssa.Value, depth int) bool {
	if depth > 20 {
		return false
	}
	switch x := v.(type) {
	case *ssa.Const:
		return true
	case *ssa.Global:
		return true
	case *ssa.Function:
		return true
	case *ssa.Alloc:
		// composite literal: every store into it must be constant-origin
		for _, ref := range *x.Referrers() {
			switch y := ref.(type) {
			case *ssa.Store:
				if y.Addr == x && !constantOrigin(y.Val, depth+1) {
					return false
				}
			case *ssa.FieldAddr:
				for _, r2 := range *y.Referrers() {
					if st, ok := r2.(*ssa.Store); ok && st.Addr == y && !constantOrigin(st.Val, depth+1) {
						return false
					}
				}
			case *ssa.IndexAddr:
				for _, r2 := range *y.Referrers() {
					if st, ok := r2.(*ssa.Store); ok && st.Addr == y && !constantOrigin(st.Val, depth+1) {
						return false
					}
				}
			}
		}
		return true
	case *ssa.Parameter, *ssa.FreeVar:
		return false
	case *ssa.UnOp:
		if x.Op == token.MUL {
			if _, ok := x.X.(*ssa.Global); ok {
				return true
			}
			return constantOrigin(x.X, depth+1)
		}
		return constantOrigin(x.X, depth+1)
	case *ssa.Call:
		if x.Common().IsInvoke() {
			return false
		}
		for _, a := range x.Common().Args {
			if !constantOrigin(a, depth+1) {
				return false
			}
		}
		if f := x.Common().StaticCallee(); f != nil {
			pkg, name := calleeName(x.Common())
			if pkg == "time" && clockFuncs[name] || pkg == "crypto/rand" || pkg == "math/rand" {
				return false
			}
			return true
		}
		return false
	}
	if ins, ok := v.(ssa.Instruction); ok {
		for _, op := range ins.Operands(nil) {
			if op != nil && *op != nil && !constantOrigin(*op, depth+1) {
				return false
			}
		}
		return true
	}
	return false
}

// globalsFedBy: package variables that (transitively, within the initialiser)
// receive the call's result.
func (cx *Ctx) globalsFedBy(ci ssa.CallInstruction) []*ssa.Global {
	v, ok := ci.(ssa.Value)
	if !ok {
		return nil
	}
	var out []*ssa.Global
	seen := map[ssa.Value]bool{}
	var walk func(v ssa.Value)
	walk = func(v ssa.Value) {
		if seen[v] || v.Referrers() == nil {
			return
		}
		seen[v] = true
		for _, r := range *v.Referrers() {
			switch x := r.(type) {
			case *ssa.Store:
				if g := globalBase(x.Addr); g != nil {
					out = append(out, g)
				} else if b := allocBase(x.Addr); b != nil {
					walk(b)
				}
			default:
				if val, ok := r.(ssa.Value); ok {
					walk(val)
				}
			}
		}
	}
	walk(v)
	return out
}

// readersOf: reachable consensus functions that load g.
func (cx *Ctx) readersOf(g *ssa.Global, reach *Reach) []*ssa.Function {
	var out []*ssa.Function
	for _, f := range reach.Order {
		if f.Blocks == nil || !isIrismodFunc(f) {
			continue
		}
		if f.Synthetic == "package initializer" {
			continue
		}
		found := false
		for _, b := range f.Blocks {
			for _, ins := range b.Instrs {
				for _, op := range ins.Operands(nil) {
					if op != nil && *op == ssa.Value(g) {
						if _, isStore := ins.(*ssa.Store); isStore && ins.(*ssa.Store).Addr == g {
							continue
						}
						found = true
					}
				}
			}
		}
		if found {
			out = append(out, f)
		}
	}
	return out
}

// ndInSlice: an ND source in the interprocedural backward slice of the call's arguments.
func (cx *Ctx) ndInSlice(ci ssa.CallInstruction) string {
	seen := map[ssa.Value]bool{}
	var walk func(v ssa.Value, depth int) string
	walk = func(v ssa.Value, depth int) string {
		if v == nil || seen[v] || depth > 40 {
			return ""
		}
		seen[v] = true
		switch x := v.(type) {
		case *ssa.Call:
			pkg, name := calleeName(x.Common())
			if pkg == "time" && clockFuncs[name] || pkg == "crypto/rand" || (pkg == "math/rand" && !strings.Contains(name, ".") && name != "New" && name != "NewSource") {
				return pkg + "." + name + " at " + cx.P.Pos(x.Pos())
			}
		case *ssa.Parameter:
			// bind to every irismod caller
			fn := x.Parent()
			idx := -1
			for i, p := range fn.Params {
				if p == x {
					idx = i
				}
			}
			for _, g := range cx.P.AllFuncs {
				for _, e := range cx.Edges(g) {
					if e.Callee == fn && e.Kind != "closure" {
						if call, ok := e.Site.(ssa.CallInstruction); ok {
							args := call.Common().Args
							if call.Common().IsInvoke() {
								// receiver is not in Args
								if idx-1 >= 0 && idx-1 < len(args) {
									if s := walk(args[idx-1], depth+1); s != "" {
										return s
									}
								}
							} else if idx < len(args) {
								if s := walk(args[idx], depth+1); s != "" {
									return s
								}
							}
						}
					}
				}
			}
			return ""
		case *ssa.UnOp:
			if x.Op == token.MUL {
				if g, ok := x.X.(*ssa.Global); ok {
					// global initialised from ND source?
					if initf := g.Pkg.Func("init"); initf != nil {
						for _, b := range initf.Blocks {
							for _, ins := range b.Instrs {
								if st, ok := ins.(*ssa.Store); ok && globalBase(st.Addr) == g {
									if s := walk(st.Val, depth+1); s != "" {
										return s
									}
								}
							}
						}
					}
					return ""
				}
			}
		}
		if ins, ok := v.(ssa.Instruction); ok {
			for _, op := range ins.Operands(nil) {
				if op != nil && *op != nil {
					if s := walk(*op, depth+1); s != "" {
						return s
					}
				}
			}
		}
		return ""
	}
	for _, a := range ci.Common().Args {
		if s := walk(a, 0); s != "" {
			return s
		}
	}
	return ""
}

// singleRegistrantException: a first-match range over a keeper-held registry map
// is order-independent when the registry has exactly one registration site.
func (cx *Ctx) singleRegistrantException(mr *mapRange) (string, bool) {
	if !strings.HasPrefix(mr.mapOrigin, "field ") {
		return "", false
	}
	fname := strings.TrimPrefix(mr.mapOrigin, "field ")
	// writers of that field's map
	var writers []*ssa.Function
	for _, f := range cx.P.AllFuncs {
		if !isConsensusCode(cx, f) {
			continue
		}
		for _, b := range f.Blocks {
			for _, ins := range b.Instrs {
				if mu, ok := ins.(*ssa.MapUpdate); ok {
					d := processLocalMap(mu.Map)
					if strings.HasSuffix(d, " "+fname) || strings.HasSuffix(d, "."+fname[strings.LastIndex(fname, ".")+1:]) {
						writers = append(writers, f)
					}
				}
			}
		}
	}
	if len(writers) != 1 {
		return "", false
	}
	w := writers[0]
	// walk up the chain of callers: every level must have exactly one call site
	// in consensus code, ending in a function nobody in irismod calls (a
	// constructor wired by the application).
	chain := []string{shortFn(w)}
	for depth := 0; depth < 6; depth++ {
		n := 0
		var caller *ssa.Function
		where := ""
		for _, f := range cx.P.AllFuncs {
			if !isConsensusCode(cx, f) {
				continue
			}
			for _, e := range cx.Edges(f) {
				if e.Callee == w && e.Kind != "closure" {
					n++
					caller = f
					where = cx.P.Pos(e.Site.Pos())
				}
			}
		}
		if n == 0 {
			return fmt.Sprintf("the registry map is written only through %s, each link having exactly one call site in consensus code and none of them in a loop, so at most one entry exists and the first match is the only match", strings.Join(chain, " ← ")), depth > 0
		}
		if n != 1 {
			return "", false
		}
		// the single call site must not sit in a loop
		for _, e := range cx.Edges(caller) {
			if e.Callee == w && inLoop(e.Site.Block()) {
				return "", false
			}
		}
		chain = append(chain, shortFn(caller)+" ("+where+")")
		w = caller
	}
	return "", false
}

// inLoop: the block can reach itself.
func inLoop(b *ssa.BasicBlock) bool {
	seen := map[*ssa.BasicBlock]bool{}
	var q []*ssa.BasicBlock
	q = append(q, b.Succs...)
	for len(q) > 0 {
		x := q[0]
		q = q[1:]
		if x == b {
			return true
		}
		if seen[x] {
			continue
		}
		seen[x] = true
		q = append(q, x.Succs...)
	}
	return false
}

func (cx *Ctx) c11Controls(r *Report) {}

// processLivedType: values of the (named struct) type can outlive one handler call.
var processLivedCx *Ctx
var processLivedCache = map[*types.Named]bool{}

func processLivedType(t types.Type) bool {
	n := namedOf(t)
	if n == nil || n.Obj().Pkg() == nil {
		return true
	}
	if v, ok := processLivedCache[n]; ok {
		return v
	}
	res := func() bool {
		name := n.Obj().Name()
		if isKeeperStruct(n) || strings.Contains(name, "Keeper") || strings.Contains(name, "AppModule") || strings.Contains(name, "Server") || strings.Contains(name, "Hook") || strings.Contains(name, "Handler") {
			return true
		}
		cx := processLivedCx
		if cx == nil {
			return true
		}
		mentions := func(tt types.Type) bool {
			found := false
			var walk func(x types.Type, d int)
			walk = func(x types.Type, d int) {
				if x == nil || d > 4 || found {
					return
				}
				if nn := namedOf(x); nn == n {
					found = true
					return
				}
				switch y := x.(type) {
				case *types.Pointer:
					walk(y.Elem(), d+1)
				case *types.Slice:
					walk(y.Elem(), d+1)
				case *types.Map:
					walk(y.Key(), d+1)
					walk(y.Elem(), d+1)
				case *types.Array:
					walk(y.Elem(), d+1)
				}
			}
			walk(tt, 0)
			return found
		}
		for _, pk := range cx.P.Pkgs {
			if !strings.HasPrefix(pk.PkgPath, modPrefix) || pk.Types == nil {
				continue
			}
			sc := pk.Types.Scope()
			for _, nm := range sc.Names() {
				switch o := sc.Lookup(nm).(type) {
				case *types.Var:
					if mentions(o.Type()) {
						return true // kept in a package variable
					}
				case *types.TypeName:
					st, ok := o.Type().Underlying().(*types.Struct)
					if !ok {
						continue
					}
					on, _ := o.Type().(*types.Named)
					if on == nil || on == n || !processLivedTypeShallow(on) {
						continue
					}
					for i := 0; i < st.NumFields(); i++ {
						if mentions(st.Field(i).Type()) {
							return true // kept in a field of a keeper / module
						}
					}
				}
			}
		}
		return false
	}()
	processLivedCache[n] = res
	return res
}

func processLivedTypeShallow(n *types.Named) bool {
	name := n.Obj().Name()
	return isKeeperStruct(n) || strings.Contains(name, "Keeper") || strings.Contains(name, "AppModule") || strings.Contains(name, "Server") || strings.Contains(name, "Hook")
}

// inPlaceMutator: the call overwrites its receiver - cosmossdk.io/math's *Mut methods and
// the setters of math/big numbers. Returns the method and the receiver value.
func inPlaceMutator(c *ssa.Call) (string, ssa.Value) {
	cc := c.Common()
	f := cc.StaticCallee()
	if f == nil || cc.IsInvoke() || f.Signature.Recv() == nil || len(cc.Args) == 0 {
		return "", nil
	}
	pkg, name := calleeName(cc)
	short := name[strings.LastIndex(name, ".")+1:]
	switch pkg {
	case "cosmossdk.io/math":
		if strings.HasSuffix(short, "Mut") && short != "BigIntMut" {
			return name, cc.Args[0]
		}
	case "math/big":
		switch short {
		case "Add", "Sub", "Mul", "Quo", "Div", "Mod", "Rem", "Exp", "Set", "SetInt64", "SetUint64", "SetString", "SetBytes", "SetBits", "SetBit",
			"Neg", "Abs", "Lsh", "Rsh", "And", "AndNot", "Or", "Xor", "Not", "Sqrt", "ModInverse", "ModSqrt", "GCD", "QuoRem", "DivMod", "MulRange", "Binomial",
			"SetFrac", "SetFrac64", "SetInt", "SetRat", "SetFloat64", "Inv", "SetPrec", "SetMode", "SetInf", "Copy":
			return "big." + name, cc.Args[0]
		}
	}
	return "", nil
}

// freshNumber: the value was created by the function that uses it (a constructor or
// arithmetic result, new(T), a clone), possibly through further in-place steps on it.
func (cx *Ctx) freshNumber(v ssa.Value, depth int, seen map[ssa.Value]bool) bool {
	if depth > 10 || seen[v] {
		return depth <= 10
	}
	seen[v] = true
	switch x := v.(type) {
	case *ssa.Alloc:
		if x.Referrers() == nil {
			return true
		}
		for _, r := range *x.Referrers() {
			if st, ok := r.(*ssa.Store); ok && st.Addr == x && !cx.freshNumber(st.Val, depth+1, seen) {
				return false
			}
		}
		return true
	case *ssa.Const:
		return true
	case *ssa.Call:
		if m, recv := inPlaceMutator(x); m != "" {
			return cx.freshNumber(recv, depth+1, seen)
		}
		_, name := calleeName(x.Common())
		if strings.HasSuffix(name, "BigIntMut") {
			return false // hands out the number's own *big.Int
		}
		return true
	case *ssa.Extract:
		return true
	case *ssa.Phi:
		for _, e := range x.Edges {
			if !cx.freshNumber(e, depth+1, seen) {
				return false
			}
		}
		return true
	case *ssa.UnOp:
		if x.Op == token.MUL {
			if a, ok := x.X.(*ssa.Alloc); ok {
				return cx.freshNumber(a, depth+1, seen)
			}
			return false
		}
		return true
	case *ssa.MakeInterface:
		return cx.freshNumber(x.X, depth+1, seen)
	case *ssa.ChangeType:
		return cx.freshNumber(x.X, depth+1, seen)
	case *ssa.Convert:
		return cx.freshNumber(x.X, depth+1, seen)
	case *ssa.Parameter:
		// fresh when every static caller passes a fresh value
		fn := x.Parent()
		idx := -1
		for i, p := range fn.Params {
			if p == x {
				idx = i
			}
		}
		callers := cx.CallersOf(fn)
		if idx < 0 || len(callers) == 0 {
			return false
		}
		for _, cs := range callers {
			cc := cs.Site.Common()
			if cc.IsInvoke() || cc.StaticCallee() != fn || idx >= len(cc.Args) || !cx.freshNumber(cc.Args[idx], depth+1, seen) {
				return false
			}
		}
		return true
	}
	return false
}

// processStateCall: a call that writes (or, with writesOnly=false, also one that reads)
// process-local shared state through the sync / sync/atomic API: a sync.Map kept in a
// keeper or package variable, an atomic counter.
func processStateCall(c *ssa.Call, writesOnly bool) string {
	cc := c.Common()
	if cc.IsInvoke() || cc.StaticCallee() == nil {
		return ""
	}
	pkg, name := calleeName(cc)
	switch pkg {
	case "sync":
		switch name {
		case "Map.Store", "Map.LoadOrStore", "Map.Delete", "Map.LoadAndDelete", "Map.Swap", "Map.CompareAndSwap", "Map.CompareAndDelete", "Map.Clear", "Pool.Put":
			return "sync." + name
		case "Map.Load", "Map.Range", "Pool.Get":
			if !writesOnly {
				return "sync." + name
			}
		}
	case "sync/atomic":
		if strings.Contains(name, "Store") || strings.Contains(name, "Add") || strings.Contains(name, "Swap") || strings.Contains(name, "CompareAndSwap") || strings.Contains(name, "Or") || strings.Contains(name, "And") {
			return "atomic." + name
		}
		if !writesOnly && strings.Contains(name, "Load") {
			return "atomic." + name
		}
	}
	return ""
}

// processStateUses: every use (read or write) of process-local state in the functions
// reachable from roots: package variables of irismod that are written at run time somewhere,
// maps held in keeper fields or package variables, sync.Map / atomic values.
func (cx *Ctx) processStateUses(roots []*ssa.Function) []string {
	var out []string
	for _, f := range cx.Reachable(roots, nil).Order {
		if f.Blocks == nil || !isIrismodFunc(f) || cx.isDoubleFunc(f) {
			continue
		}
		for _, b := range f.Blocks {
			for _, ins := range b.Instrs {
				switch x := ins.(type) {
				case *ssa.MapUpdate:
					if d := processLocalMap(x.Map); d != "" {
						out = append(out, cx.P.Pos(x.Pos())+" write to "+d+" in "+shortFn(f))
					}
				case *ssa.Lookup:
					if _, isMap := x.X.Type().Underlying().(*types.Map); isMap {
						if d := processLocalMap(x.X); d != "" {
							out = append(out, cx.P.Pos(x.Pos())+" lookup in "+d+" in "+shortFn(f))
						}
					}
				case *ssa.Call:
					if w := processStateCall(x, false); w != "" {
						out = append(out, cx.P.Pos(x.Pos())+" "+w+" in "+shortFn(f))
					}
				}
			}
		}
	}
	sort.Strings(out)
	return out
}

// sharedNumberRule: ND8 for the functions of the given modules, reported under a property of
// that module (C18: a generator value whose computation overwrites a number shared with
// other requests is not a function of this request's inputs alone).
func (cx *Ctx) sharedNumberRule(r *Report, mods []string, rule string) int {
	reach := cx.consensusReach()
	n := 0
	for _, f := range reach.Order {
		if f.Blocks == nil || !isIrismodFunc(f) || !isConsensusCode(cx, f) || !contains(mods, moduleOf(funcPkgPath(f))) {
			continue
		}
		for _, b := range f.Blocks {
			for _, ins := range b.Instrs {
				x, ok := ins.(*ssa.Call)
				if !ok {
					continue
				}
				if m, recv := inPlaceMutator(x); m != "" {
					n++
					if !cx.freshNumber(recv, 0, map[ssa.Value]bool{}) {
						r.violate(rule, moduleOf(funcPkgPath(f))+"|"+shortFn(f)+"|"+m, cx.P.Pos(x.Pos()), "in-place arithmetic "+m+" on "+describeValue(recv)+", a number that "+shortFn(f)+" did not create: the value it was taken from (a cached seed, a field shared by copies of the generator) changes with every use, so the next result depends on how many were produced before it - not on that request's own inputs")
					}
				}
			}
		}
	}
	r.ok(rule, "scan", "", fmt.Sprintf("%d receiver-overwriting arithmetic calls in modules %v, each on a number created in the same function", n, mods))
	return n
}

// writesThroughParam: g stores through its pointer parameter i (a field, an element, the
// whole pointee), itself or in an irismod callee it hands the pointer to; the store.
func writesThroughParam(g *ssa.Function, i int, depth int, seen map[*ssa.Function]bool) ssa.Instruction {
	if g == nil || g.Blocks == nil || i >= len(g.Params) || depth > 4 || seen[g] {
		return nil
	}
	seen[g] = true
	var visit func(v ssa.Value, d int) ssa.Instruction
	visit = func(v ssa.Value, d int) ssa.Instruction {
		if d > 6 || v.Referrers() == nil {
			return nil
		}
		for _, r := range *v.Referrers() {
			switch y := r.(type) {
			case *ssa.Store:
				if y.Addr == v {
					return y
				}
			case *ssa.FieldAddr:
				if at := visit(y, d+1); at != nil {
					return at
				}
			case *ssa.IndexAddr:
				if at := visit(y, d+1); at != nil {
					return at
				}
			case *ssa.Call:
				cc := y.Common()
				if cc.IsInvoke() {
					continue
				}
				h := cc.StaticCallee()
				if h == nil || !isIrismodFunc(h) {
					continue
				}
				for j, a := range cc.Args {
					if a == v {
						if at := writesThroughParam(h, j, depth+1, seen); at != nil {
							return at
						}
					}
				}
			}
		}
		return nil
	}
	return visit(g.Params[i], 0)
}
