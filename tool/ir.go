package main

// Shared abstractions over SSA: failure/success exits, must-pass-through cuts,
// dominating branch facts (guards), reverse call edges.

import (
	"fmt"
	"go/constant"
	"go/token"
	"go/types"
	"sort"
	"strings"

	"golang.org/x/tools/go/ssa"
)

// ------------------------------------------------------------------ exits

func lastResultIsError(f *ssa.Function) bool {
	n := f.Signature.Results().Len()
	return n > 0 && isErrorType(f.Signature.Results().At(n-1).Type())
}

// errNonNilAt: on entry to block b the value e is known to be non-nil
// (b is dominated by the true edge of `e != nil` or the false edge of `e == nil`).
func errNonNilAt(e ssa.Value, b *ssa.BasicBlock) bool {
	for _, fct := range dominatingFacts(b) {
		if bo, ok := fct.Cond.(*ssa.BinOp); ok {
			if (bo.X == e && isNilConst(bo.Y)) || (bo.Y == e && isNilConst(bo.X)) {
				if bo.Op == token.NEQ && fct.Holds || bo.Op == token.EQL && !fct.Holds {
					return true
				}
			}
		}
	}
	return false
}

func isNilConst(v ssa.Value) bool {
	c, ok := v.(*ssa.Const)
	return ok && c.IsNil()
}

// isFailureReturn: the return's error operand is provably a non-nil error.
func isFailureReturn(ret *ssa.Return) bool {
	f := ret.Parent()
	if !lastResultIsError(f) || len(ret.Results) == 0 {
		return false
	}
	return isErrValue(ret.Results[len(ret.Results)-1], ret.Block(), 0)
}

func isErrValue(e ssa.Value, at *ssa.BasicBlock, depth int) bool {
	if depth > 6 {
		return false
	}
	switch x := e.(type) {
	case *ssa.Const:
		return false
	case *ssa.MakeInterface:
		return true // a concrete error value wrapped into the interface
	case *ssa.UnOp:
		if x.Op == token.MUL {
			if g, ok := x.X.(*ssa.Global); ok {
				_ = g
				return true // package-level error value (ErrXxx)
			}
			// result spilled because of a defer: `*r = v; rundefers; return *r`
			if a, ok := x.X.(*ssa.Alloc); ok {
				var stores, none []*ssa.Store
				for _, ref := range *a.Referrers() {
					if st, ok := ref.(*ssa.Store); ok && st.Addr == a {
						stores = append(stores, st)
					}
				}
				reach, _ := reachingStores(stores, none, x)
				if len(reach) == 0 {
					return false
				}
				for _, st := range reach {
					if !isErrValue(st.Val, st.Block(), depth+1) {
						return false
					}
				}
				return true
			}
		}
	case *ssa.Call:
		pkg, name := calleeName(x.Common())
		switch {
		case pkg == "cosmossdk.io/errors" && (name == "Wrap" || name == "Wrapf" || name == "Register" || name == "Error.Wrap" || name == "Error.Wrapf"),
			pkg == "fmt" && name == "Errorf", pkg == "errors" && name == "New",
			pkg == "github.com/cosmos/cosmos-sdk/types/errors" && strings.HasPrefix(name, "Wrap"):
			// errorsmod.Wrap(nil, ..) returns nil; accept when first arg is not a nil constant
			if len(x.Call.Args) > 0 && isNilConst(x.Call.Args[0]) {
				return false
			}
			if name == "Wrap" || name == "Wrapf" {
				// Wrap(err, ...) is nil iff err is nil
				a := x.Call.Args[0]
				if isErrValue(a, at, depth+1) {
					return true
				}
				return errNonNilAt(a, at)
			}
			return true
		}
		// an error constructor of the module itself: every return of the callee is a
		// non-nil error (errInvalidDirection(d) = Wrap(ErrInvalidDirection, d.String()))
		if g := x.Common().StaticCallee(); g != nil && g.Signature.Results().Len() == 1 && errThroughCallee(x, 0, at, depth) {
			return true
		}
	case *ssa.Extract:
		// return claimFailed(err): the helper hands its (non-nil) argument back as the error
		if c, ok := x.Tuple.(*ssa.Call); ok && errThroughCallee(c, x.Index, at, depth) {
			return true
		}
	case *ssa.Phi:
		if errNonNilAt(x, at) {
			return true // `err = f() / err = g(); if err != nil { return err }`
		}
		for _, ed := range x.Edges {
			if !isErrValue(ed, at, depth+1) {
				return false
			}
		}
		return len(x.Edges) > 0
	}
	return errNonNilAt(e, at)
}

func returnsOf(f *ssa.Function) []*ssa.Return {
	var out []*ssa.Return
	for _, b := range f.Blocks {
		if len(b.Instrs) == 0 {
			continue
		}
		if r, ok := b.Instrs[len(b.Instrs)-1].(*ssa.Return); ok {
			if f.Recover == b && len(b.Preds) == 0 && !recovers(f) {
				continue // entered only when a deferred call recovers a panic: not a way the function returns in a run that counts
			}
			out = append(out, r)
		}
	}
	return out
}

// successExitBlocks: blocks ending in a return that may be a success exit.
// With named results and defer, go/ssa returns through a recover block; handled
// by treating any non-failure return as a success exit.
func successExitBlocks(f *ssa.Function) []*ssa.BasicBlock {
	var out []*ssa.BasicBlock
	for _, r := range returnsOf(f) {
		if !isFailureReturn(r) {
			out = append(out, r.Block())
		}
	}
	return out
}

// mustPass: every path from the entry of f to a success exit executes at least
// one instruction satisfying pred. Computed as reachability on the CFG with the
// instructions' blocks cut at the instruction.
func mustPass(f *ssa.Function, pred func(ssa.Instruction) bool) bool {
	return mustPassFrom(f, f.Blocks[0], pred, nil)
}

// mustPassFrom generalises mustPass: paths start at `from`; `isTarget` selects
// target blocks (default: success exits).
func mustPassFrom(f *ssa.Function, from *ssa.BasicBlock, pred func(ssa.Instruction) bool, isTarget func(*ssa.BasicBlock) bool) bool {
	targets := map[*ssa.BasicBlock]bool{}
	if isTarget == nil {
		for _, b := range successExitBlocks(f) {
			targets[b] = true
		}
	} else {
		for _, b := range f.Blocks {
			if isTarget(b) {
				targets[b] = true
			}
		}
	}
	cut := map[*ssa.BasicBlock]bool{}
	for _, b := range f.Blocks {
		for _, ins := range b.Instrs {
			if pred(ins) {
				cut[b] = true
				break
			}
		}
	}
	seen := map[*ssa.BasicBlock]bool{}
	q := []*ssa.BasicBlock{from}
	for len(q) > 0 {
		b := q[0]
		q = q[1:]
		if seen[b] {
			continue
		}
		seen[b] = true
		if cut[b] {
			continue // path passes through a site
		}
		if targets[b] {
			return false
		}
		for i, sc := range b.Succs {
			if edgeFeasible != nil && !edgeFeasible(b, i) {
				continue
			}
			q = append(q, sc)
		}
	}
	return true
}

// edgeFeasible, when set, prunes branch edges from the must-pass searches (see
// withAssumptions: edges contradicting the key of a dispatch-table call).
var edgeFeasible func(b *ssa.BasicBlock, succ int) bool

// ------------------------------------------------------------------ facts

// Fact: on entry to a block, Cond is known to be Holds.
type Fact struct {
	Cond  ssa.Value
	Holds bool
	If    *ssa.If
}

// dominatingFacts walks the immediate-dominator chain of b and collects the
// branch conditions that are decided on every path to b. && / || / ! are already
// lowered by go/ssa into branches and UnOps.
func dominatingFacts(b *ssa.BasicBlock) []Fact {
	var out []Fact
	for x := b; x != nil; x = x.Idom() {
		d := x.Idom()
		if d == nil {
			break
		}
		// the edge d→x decides d's condition only if x is reached solely
		// through that edge: x has a single predecessor d, or every path goes via
		// one successor s of d with s dominating x.
		ifi, ok := d.Instrs[len(d.Instrs)-1].(*ssa.If)
		if !ok {
			continue
		}
		for i, s := range d.Succs {
			if s == x && len(x.Preds) == 1 {
				out = append(out, expandCond(ifi.Cond, i == 0, ifi)...)
			} else if s != x && s.Dominates(x) && len(s.Preds) == 1 {
				// x is deeper under s; s itself will be visited on the chain
			}
		}
	}
	return out
}

// expandCond normalises negation.
func expandCond(c ssa.Value, holds bool, ifi *ssa.If) []Fact {
	for {
		u, ok := c.(*ssa.UnOp)
		if !ok || u.Op != token.NOT {
			break
		}
		c = u.X
		holds = !holds
	}
	return []Fact{{Cond: c, Holds: holds, If: ifi}}
}

// factsAtInstr: facts holding when ins executes.
func factsAtInstr(ins ssa.Instruction) []Fact { return dominatingFacts(ins.Block()) }

// callOfErr: if v is the error produced by a call (directly or extracted from its
// tuple), returns that call.
func callOfErr(v ssa.Value) *ssa.Call {
	switch x := v.(type) {
	case *ssa.Call:
		return x
	case *ssa.Extract:
		if c, ok := x.Tuple.(*ssa.Call); ok {
			return c
		}
	}
	return nil
}

// CallFact: a dominating fact about the outcome of a call.
type CallFact struct {
	Call *ssa.Call
	// Outcome: "err==nil", "err!=nil", "true", "false", "ok" (2nd result true), "!ok"
	Outcome string
	Fact    Fact
}

// callFacts extracts facts about call results among the dominating facts of b:
//
//	if err := f(...); err != nil { return }  → after it: f "err==nil"
//	if !f(...) { return }                    → f "true"
//	v, found := f(...); if !found { return } → f "ok"
func callFacts(b *ssa.BasicBlock) []CallFact {
	var out []CallFact
	for _, fct := range dominatingFacts(b) {
		switch c := fct.Cond.(type) {
		case *ssa.BinOp:
			if c.Op != token.NEQ && c.Op != token.EQL {
				break
			}
			var e ssa.Value
			if isNilConst(c.Y) {
				e = c.X
			} else if isNilConst(c.X) {
				e = c.Y
			}
			if e == nil {
				break
			}
			if call := callOfErr(e); call != nil {
				nonNil := (c.Op == token.NEQ) == fct.Holds
				o := "err==nil"
				if nonNil {
					o = "err!=nil"
				}
				out = append(out, CallFact{call, o, fct})
			}
		case *ssa.Call:
			o := "false"
			if fct.Holds {
				o = "true"
			}
			out = append(out, CallFact{c, o, fct})
		case *ssa.Extract:
			if call, ok := c.Tuple.(*ssa.Call); ok {
				o := "!ok"
				if fct.Holds {
					o = "ok"
				}
				out = append(out, CallFact{call, o, fct})
			}
		}
	}
	return out
}

// ------------------------------------------------------------------ callers

type CallSite struct {
	Caller *ssa.Function
	Site   ssa.CallInstruction
	Kind   string
}

func (cx *Ctx) buildCallers() {
	if cx.callers != nil {
		return
	}
	cx.callers = map[*ssa.Function][]CallSite{}
	seen := map[*ssa.Function]bool{}
	var q []*ssa.Function
	for _, f := range cx.P.AllFuncs {
		q = append(q, f)
	}
	for len(q) > 0 {
		f := q[0]
		q = q[1:]
		if seen[f] || f.Blocks == nil {
			continue
		}
		seen[f] = true
		for _, e := range cx.Edges(f) {
			if ci, ok := e.Site.(ssa.CallInstruction); ok && e.Kind != "closure" {
				cx.callers[e.Callee] = append(cx.callers[e.Callee], CallSite{f, ci, e.Kind})
			}
			if !seen[e.Callee] {
				q = append(q, e.Callee)
			}
		}
	}
}

// CallersOf returns call sites of fn located in consensus code. Synthetic
// wrappers (bound methods, *T wrappers) are looked through.
func (cx *Ctx) CallersOf(fn *ssa.Function) []CallSite {
	cx.buildCallers()
	var out []CallSite
	seen := map[*ssa.Function]bool{}
	var rec func(f *ssa.Function)
	rec = func(f *ssa.Function) {
		if seen[f] {
			return
		}
		seen[f] = true
		for _, cs := range cx.callers[f] {
			if cs.Caller.Synthetic != "" && cs.Caller.Synthetic != "package initializer" {
				rec(cs.Caller) // wrapper: its callers are ours
				continue
			}
			if !isConsensusCode(cx, cs.Caller) {
				continue
			}
			out = append(out, cs)
		}
	}
	rec(fn)
	sort.SliceStable(out, func(i, j int) bool { return cx.P.Pos(out[i].Site.Pos()) < cx.P.Pos(out[j].Site.Pos()) })
	return out
}

// closureParent: for an anonymous function, the call instruction in the parent
// that receives the closure (e.g. IterateX(ctx, func...)), if any.
func closureUse(fn *ssa.Function) (ssa.Instruction, *ssa.MakeClosure) {
	p := fn.Parent()
	if p == nil {
		return nil, nil
	}
	for _, b := range p.Blocks {
		for _, ins := range b.Instrs {
			if mc, ok := ins.(*ssa.MakeClosure); ok && mc.Fn == fn {
				for _, r := range *mc.Referrers() {
					return r, mc
				}
				return ins, mc
			}
		}
	}
	return nil, nil
}

// ------------------------------------------------------------------ helpers

func findCalls(f *ssa.Function, match func(ssa.CallInstruction) bool) []ssa.CallInstruction {
	var out []ssa.CallInstruction
	for _, b := range f.Blocks {
		for _, ins := range b.Instrs {
			if ci, ok := ins.(ssa.CallInstruction); ok && match(ci) {
				out = append(out, ci)
			}
		}
	}
	return out
}

func calleeIs(ci ssa.CallInstruction, pkgSuffix, name string) bool {
	pkg, n := calleeName(ci.Common())
	return n == name && (pkgSuffix == "" || strings.HasSuffix(pkg, pkgSuffix))
}

// sameValue: two SSA values denote the same run-time value in one function:
// identical, or both loads/field-reads of the same location with no intervening
// consideration (structural equality of pure address expressions).
func sameValue(a, b ssa.Value) bool {
	if a == b {
		return true
	}
	return pureExpr(a, 0) != "" && pureExpr(a, 0) == pureExpr(b, 0)
}

// pureExpr renders side-effect-free expressions structurally ("" if not pure).
func pureExpr(v ssa.Value, depth int) string {
	if depth > 8 {
		return ""
	}
	switch x := v.(type) {
	case *ssa.Parameter:
		return "param:" + x.Name()
	case *ssa.FreeVar:
		return "free:" + x.Name()
	case *ssa.Const:
		if x.Value == nil {
			return "nil"
		}
		if x.Value.Kind() == constant.String {
			return "str:" + constant.StringVal(x.Value)
		}
		return "const:" + x.Value.ExactString()
	case *ssa.Global:
		return "global:" + x.Name()
	case *ssa.Alloc:
		// a spilled parameter is the parameter
		var sv ssa.Value
		n := 0
		for _, r := range *x.Referrers() {
			if st, ok := r.(*ssa.Store); ok && st.Addr == x {
				sv = st.Val
				n++
			}
		}
		if n == 1 {
			if p, ok := sv.(*ssa.Parameter); ok {
				return "param:" + p.Name()
			}
		}
		return fmt.Sprintf("alloc:%s@%d", x.Comment, x.Pos())
	case *ssa.FieldAddr:
		if s := pureExpr(x.X, depth+1); s != "" {
			return s + "." + fieldName(x)
		}
	case *ssa.Field:
		if s := pureExpr(x.X, depth+1); s != "" {
			st := x.X.Type().Underlying().(*types.Struct)
			tn := ""
			if n := namedOf(x.X.Type()); n != nil {
				tn = n.Obj().Name() + "."
			}
			return s + "." + tn + st.Field(x.Field).Name()
		}
	case *ssa.UnOp:
		if x.Op == token.MUL {
			return pureExpr(x.X, depth+1)
		}
	case *ssa.ChangeType:
		return pureExpr(x.X, depth+1)
	case *ssa.Convert:
		return pureExpr(x.X, depth+1)
	case *ssa.MakeInterface:
		return pureExpr(x.X, depth+1)
	case *ssa.Extract:
		if c, ok := x.Tuple.(*ssa.Call); ok {
			return fmt.Sprintf("call@%d#%d", c.Pos(), x.Index)
		}
	case *ssa.Call:
		return fmt.Sprintf("call@%d", x.Pos())
	}
	return ""
}

// mustReachPS: every feasible path from `from` (entered from block `via`, may be
// nil) to a success exit executes `target`. Path-sensitive for boolean flags:
// the value of a phi of constants (a `changed := false … changed = true` flag) is
// tracked along the path and an If on such a phi follows only the feasible edge.
func mustReachPS(f *ssa.Function, from, via *ssa.BasicBlock, target ssa.Instruction) bool {
	return mustReachPSPred(f, from, via, func(i ssa.Instruction) bool { return i == target })
}

// mustReachPSPred: as mustReachPS with a predicate selecting the target instructions.
func mustReachPSPred(f *ssa.Function, from, via *ssa.BasicBlock, isTarget func(ssa.Instruction) bool) bool {
	exits := map[*ssa.BasicBlock]bool{}
	for _, b := range successExitBlocks(f) {
		exits[b] = true
	}
	type env map[*ssa.Phi]bool
	sig := func(b *ssa.BasicBlock, e env) string {
		s := fmt.Sprint(b.Index)
		var ks []string
		for p, v := range e {
			ks = append(ks, fmt.Sprintf("%s=%v", p.Name(), v))
		}
		sort.Strings(ks)
		return s + "|" + strings.Join(ks, ",")
	}
	seen := map[string]bool{}
	ok := true
	var visit func(b, pred *ssa.BasicBlock, e env, depth int)
	visit = func(b, pred *ssa.BasicBlock, e env, depth int) {
		if !ok || depth > 400 {
			return
		}
		// phis of b take their value from pred
		ne := env{}
		for k, v := range e {
			ne[k] = v
		}
		if pred != nil {
			idx := -1
			for i, p := range b.Preds {
				if p == pred {
					idx = i
				}
			}
			for _, ins := range b.Instrs {
				phi, isPhi := ins.(*ssa.Phi)
				if !isPhi {
					break
				}
				delete(ne, phi)
				if idx < 0 || idx >= len(phi.Edges) {
					continue
				}
				switch v := phi.Edges[idx].(type) {
				case *ssa.Const:
					if v.Value != nil && v.Value.Kind() == constant.Bool {
						ne[phi] = constant.BoolVal(v.Value)
					}
				case *ssa.Phi:
					if bv, known := e[v]; known {
						ne[phi] = bv
					}
				}
			}
		}
		k := sig(b, ne)
		if seen[k] {
			return
		}
		seen[k] = true
		for _, ins := range b.Instrs {
			if isTarget(ins) {
				return // this path passes the target
			}
		}
		if exits[b] {
			ok = false
			return
		}
		if ifi, isIf := b.Instrs[len(b.Instrs)-1].(*ssa.If); isIf && len(b.Succs) == 2 {
			cond, neg := ifi.Cond, false
			if u, isU := cond.(*ssa.UnOp); isU && u.Op == token.NOT {
				cond, neg = u.X, true
			}
			if phi, isPhi := cond.(*ssa.Phi); isPhi {
				if bv, known := ne[phi]; known {
					if neg {
						bv = !bv
					}
					if bv {
						visit(b.Succs[0], b, ne, depth+1)
					} else {
						visit(b.Succs[1], b, ne, depth+1)
					}
					return
				}
			}
		}
		for _, s := range b.Succs {
			visit(s, b, ne, depth+1)
		}
	}
	visit(from, via, env{}, 0)
	return ok
}

// ------------------------------------------------------------------ path-sensitive guards

type phiVal struct {
	isConst bool
	val     bool
	atom    string
	neg     bool
}

// pathAssignments enumerates the feasible paths from the entry of fn to `site`
// and returns, for each, the truth values of the atomic branch conditions
// decided along it. Atoms are named by `name` (the same expression evaluated
// twice is one atom); boolean phis of constants and atoms (the lowering of
// `a || b`, `x := cond`) are followed symbolically. complete=false when the
// budget was exhausted.
func pathAssignments(fn *ssa.Function, site ssa.Instruction, name func(ssa.Value) string) (envs []map[string]bool, complete bool) {
	envs, _, complete = pathAssignmentsV(fn, site, name)
	return
}

// pathAssignmentsV additionally returns the SSA value behind each atom name.
func pathAssignmentsV(fn *ssa.Function, site ssa.Instruction, name func(ssa.Value) string) (envs []map[string]bool, atomVal map[string]ssa.Value, complete bool) {
	return pathAssignmentsW(fn, site, name, nil)
}

// pathAssignmentsRet: the paths to the return `ret` of a boolean function on which
// the returned value equals want (the value may be a φ of constants and atoms: a path
// that delivers the other constant is dropped, a path that delivers an atom decides it).
func pathAssignmentsRet(fn *ssa.Function, ret *ssa.Return, want bool, name func(ssa.Value) string) (envs []map[string]bool, complete bool) {
	envs, _, complete = pathAssignmentsW(fn, ret, name, &want)
	return
}

func pathAssignmentsW(fn *ssa.Function, site ssa.Instruction, name func(ssa.Value) string, retWant *bool) (envs []map[string]bool, atomVal map[string]ssa.Value, complete bool) {
	atomVal = map[string]ssa.Value{}
	type state struct {
		atoms map[string]bool
		phis  map[*ssa.Phi]phiVal
	}
	clone := func(s state) state {
		n := state{map[string]bool{}, map[*ssa.Phi]phiVal{}}
		for k, v := range s.atoms {
			n.atoms[k] = v
		}
		for k, v := range s.phis {
			n.phis[k] = v
		}
		return n
	}
	sig := func(b *ssa.BasicBlock, s state) string {
		var ks []string
		for k, v := range s.atoms {
			ks = append(ks, fmt.Sprintf("%s=%v", k, v))
		}
		for p, v := range s.phis {
			ks = append(ks, fmt.Sprintf("%s:%v%v%s%v", p.Name(), v.isConst, v.val, v.atom, v.neg))
		}
		sort.Strings(ks)
		return fmt.Sprint(b.Index) + "|" + strings.Join(ks, ",")
	}
	seen := map[string]bool{}
	steps := 0
	complete = true
	var resolve func(v ssa.Value, s state) phiVal
	resolve = func(v ssa.Value, s state) phiVal {
		neg := false
		for {
			if u, ok := v.(*ssa.UnOp); ok && u.Op == token.NOT {
				v, neg = u.X, !neg
				continue
			}
			break
		}
		switch x := v.(type) {
		case *ssa.Const:
			if x.Value != nil && x.Value.Kind() == constant.Bool {
				return phiVal{isConst: true, val: constant.BoolVal(x.Value) != neg}
			}
		case *ssa.Phi:
			if pv, ok := s.phis[x]; ok {
				if pv.isConst {
					pv.val = pv.val != neg
				} else {
					pv.neg = pv.neg != neg
				}
				return pv
			}
		}
		nm := name(v)
		if _, ok := atomVal[nm]; !ok {
			atomVal[nm] = v
		}
		return phiVal{atom: nm, neg: neg}
	}
	var visit func(b, pred *ssa.BasicBlock, s state)
	visit = func(b, pred *ssa.BasicBlock, s state) {
		steps++
		if steps > 20000 {
			complete = false
			return
		}
		if pred != nil {
			idx := -1
			for i, p := range b.Preds {
				if p == pred {
					idx = i
				}
			}
			// phis are evaluated simultaneously on entry
			old := s
			s = clone(s)
			for _, ins := range b.Instrs {
				phi, isPhi := ins.(*ssa.Phi)
				if !isPhi {
					break
				}
				delete(s.phis, phi)
				if idx >= 0 && idx < len(phi.Edges) {
					if bt, ok := phi.Type().Underlying().(*types.Basic); ok && bt.Kind() == types.Bool {
						s.phis[phi] = resolve(phi.Edges[idx], old)
					}
				}
			}
		}
		k := sig(b, s)
		if seen[k] {
			return
		}
		seen[k] = true
		for _, ins := range b.Instrs {
			if ins == site {
				if ret, isRet := site.(*ssa.Return); isRet && retWant != nil && len(ret.Results) == 1 {
					pv := resolve(ret.Results[0], s)
					switch {
					case pv.isConst:
						if pv.val != *retWant {
							return // this path returns the other value
						}
					case pv.atom != "":
						val := *retWant != pv.neg
						if av, ok := s.atoms[pv.atom]; ok {
							if av != val {
								return
							}
						} else {
							s = clone(s)
							s.atoms[pv.atom] = val
						}
					}
				}
				envs = append(envs, s.atoms)
				return
			}
		}
		ifi, isIf := b.Instrs[len(b.Instrs)-1].(*ssa.If)
		if !isIf || len(b.Succs) != 2 {
			for _, sc := range b.Succs {
				visit(sc, b, s)
			}
			return
		}
		pv := resolve(ifi.Cond, s)
		if pv.isConst {
			if pv.val {
				visit(b.Succs[0], b, s)
			} else {
				visit(b.Succs[1], b, s)
			}
			return
		}
		if pv.atom == "" {
			visit(b.Succs[0], b, s)
			visit(b.Succs[1], b, s)
			return
		}
		if av, ok := s.atoms[pv.atom]; ok {
			if av != pv.neg {
				visit(b.Succs[0], b, s)
			} else {
				visit(b.Succs[1], b, s)
			}
			return
		}
		s1 := clone(s)
		s1.atoms[pv.atom] = !pv.neg // condition true
		visit(b.Succs[0], b, s1)
		s2 := clone(s)
		s2.atoms[pv.atom] = pv.neg // condition false
		visit(b.Succs[1], b, s2)
	}
	visit(fn.Blocks[0], nil, state{map[string]bool{}, map[*ssa.Phi]phiVal{}})
	return envs, atomVal, complete
}

// recovers: a function literal of f calls recover() (a deferred call may then turn a
// panic into a normal return through f's recover block).
func recovers(f *ssa.Function) bool {
	for _, an := range f.AnonFuncs {
		for _, b := range an.Blocks {
			for _, ins := range b.Instrs {
				if c, ok := ins.(ssa.CallInstruction); ok {
					if bi, ok := c.Common().Value.(*ssa.Builtin); ok && bi.Name() == "recover" {
						return true
					}
				}
			}
		}
		if recovers(an) {
			return true
		}
	}
	return false
}

// errThroughCallee: result #idx of the call of an irismod function is a non-nil error:
// every return of the callee yields there an error value of its own or one of its
// parameters whose argument at this call is a non-nil error.
func errThroughCallee(x *ssa.Call, idx int, at *ssa.BasicBlock, depth int) bool {
	g := x.Common().StaticCallee()
	if g == nil || x.Common().IsInvoke() || g.Blocks == nil || !isIrismodFunc(g) || idx >= g.Signature.Results().Len() || !isErrorType(g.Signature.Results().At(idx).Type()) {
		return false
	}
	rets := returnsOf(g)
	if len(rets) == 0 {
		return false
	}
	for _, r := range rets {
		if idx >= len(r.Results) {
			return false
		}
		v := r.Results[idx]
		if p, ok := v.(*ssa.Parameter); ok {
			k := -1
			for i, q := range g.Params {
				if q == p {
					k = i
				}
			}
			if k < 0 || k >= len(x.Common().Args) || !isErrValue(x.Common().Args[k], at, depth+1) {
				return false
			}
			continue
		}
		if !isErrValue(v, r.Block(), depth+1) {
			return false
		}
	}
	return true
}
